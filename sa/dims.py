"""E2 -- units-of-measure abstract interpreter.

Abstract value `V`:
  kind   'q' (number or quantity) | 'top' | 'tuple' | 'ns' | 'none' | 'bool' | 'str' | 'be' | 'dimdict'
  dim    {base: LinExp}   exponents are linear forms {sym: Fraction} ('1' = constant term)
  unit   {atom: Fraction} | None     unit monomial; atoms 'u:<name>' (concrete library unit),
                                     'U:<param>' (the unit a caller chose for <param>); None = unknown
  val    LinExp | None               exact magnitude when known (floats are taken exactly)
Anything not modelled is `top`; `top` never produces a report.

The typing environment for `units.<name>` / `constants.<name>` is read from the
third-party `quantities` package (as a type checker reads stubs) plus the names
chempy adds in chempy/units.py, which are *derived* by this interpreter from the
assignments there (see load_chempy_units).
"""
from __future__ import annotations

import ast
import math
from fractions import Fraction
from typing import Callable, Dict, List, Optional

from .astu import U, dotted, fold, NotLiteral
from .core import AnalysisError

BASES = ("L", "M", "T", "I", "K", "N", "J")
BASE_NAME = dict(L="length", M="mass", T="time", I="current", K="temperature", N="amount", J="luminous_intensity")
NAME_BASE = {v: k for k, v in BASE_NAME.items()}


class _SIAtoms(dict):
    """base dimension -> canonical atom of the SI base unit (names as `quantities` spells them)"""

    def _fill(self):
        if not self:
            pq = _pq()
            for b, nm in dict(L="m", M="kg", T="s", I="A", K="K", N="mol", J="cd").items():
                dict.__setitem__(self, b, "u:" + getattr(pq, nm).name)

    def __getitem__(self, k):
        self._fill()
        return dict.__getitem__(self, k)

    def __contains__(self, k):
        self._fill()
        return dict.__contains__(self, k)


SI_ATOM = _SIAtoms()

F0, F1 = Fraction(0), Fraction(1)

# ---- linear expressions ---------------------------------------------------


def lx(c=0, **syms) -> dict:
    d = {}
    if c:
        d["1"] = Fraction(c)
    for k, v in syms.items():
        if v:
            d[k] = Fraction(v)
    return d


def lx_add(a, b, s=1):
    out = dict(a)
    for k, v in b.items():
        out[k] = out.get(k, F0) + v * s
        if out[k] == 0:
            del out[k]
    return out


def lx_scale(a, c):
    return {k: v * c for k, v in a.items() if v * c != 0}


def lx_const(a) -> Optional[Fraction]:
    if not a:
        return F0
    if set(a) == {"1"}:
        return a["1"]
    return None


def lx_mul(a, b) -> Optional[dict]:
    ca, cb = lx_const(a), lx_const(b)
    if ca is not None:
        return lx_scale(b, ca)
    if cb is not None:
        return lx_scale(a, cb)
    return None


def lx_str(a) -> str:
    if not a:
        return "0"
    parts = []
    for k in sorted(a, key=lambda s: (s != "1", s)):
        v = a[k]
        parts.append(("%s" % v) if k == "1" else ("%s*%s" % (v, k) if v != 1 else k))
    return " + ".join(parts).replace("+ -", "- ")


def dim_mul(a, b, s=1):
    out = {k: dict(v) for k, v in a.items()}
    for k, e in b.items():
        cur = lx_add(out.get(k, {}), e, s)
        if cur:
            out[k] = cur
        else:
            out.pop(k, None)
    return out


def dim_pow(a, e) -> Optional[dict]:
    out = {}
    for k, v in a.items():
        m = lx_mul(v, e)
        if m is None:
            return None
        if m:
            out[k] = m
    return out


def dim_str(d) -> str:
    if d is None:
        return "?"
    if not d:
        return "1"
    return " ".join("%s^(%s)" % (BASE_NAME.get(k, k), lx_str(v)) if lx_const(v) != 1 else BASE_NAME.get(k, k) for k, v in sorted(d.items()))


def mk_dim(**kw) -> dict:
    return {k: lx(v) for k, v in kw.items() if v}


def unit_mul(a, b, s=1):
    if a is None or b is None:
        return None
    out = dict(a)
    for k, v in b.items():
        out[k] = out.get(k, F0) + v * s
        if out[k] == 0:
            del out[k]
    return out


def unit_pow(a, e):
    if a is None:
        return None
    c = lx_const(e)
    if c is None:
        return None if a else {}
    return {k: v * c for k, v in a.items() if v * c != 0}


# ---- abstract values ------------------------------------------------------


class V:
    __slots__ = ("kind", "dim", "unit", "val", "items", "name", "extra")

    def __init__(self, kind, dim=None, unit=None, val=None, items=None, name=None, extra=None):
        self.kind, self.dim, self.unit, self.val, self.items, self.name, self.extra = kind, dim, unit, val, items, name, extra

    def __repr__(self):
        if self.kind == "q":
            return "<q dim=%s unit=%s val=%s>" % (dim_str(self.dim), self.unit, None if self.val is None else lx_str(self.val))
        return "<%s %s>" % (self.kind, self.name or "")

    @property
    def is_top(self):
        return self.kind == "top"

    @property
    def plain(self):
        """definitely a plain number (no unit object attached)"""
        return self.kind == "q" and self.unit == {} and self.dim == {}


TOP = V("top")
NONE = V("none")
BOOL = V("bool")


def num(x) -> V:
    return V("q", dim={}, unit={}, val=lx(Fraction(x)) if not isinstance(x, dict) else x)


def qty(dim, unit=None, val=None) -> V:
    return V("q", dim=dim, unit=unit, val=val)


def opaque(dim, pname) -> V:
    """a caller-supplied quantity of the given dimension in a unit of the caller's choice"""
    return V("q", dim=dim, unit={"U:" + pname: F1} if dim else {"U:" + pname: F1}, val=None)


def join(a: V, b: V) -> V:
    if a is b:
        return a
    if a.kind != b.kind:
        return TOP
    if a.kind == "q":
        if a.dim is None or b.dim is None or a.dim != b.dim:
            return TOP
        return V("q", dim=a.dim, unit=a.unit if a.unit == b.unit else None, val=a.val if a.val == b.val else None)
    if a.kind == "tuple":
        if len(a.items) != len(b.items):
            return TOP
        return V("tuple", items=[join(x, y) for x, y in zip(a.items, b.items)])
    if a.kind in ("ns", "be"):
        return a if a.name == b.name else TOP
    return a


# ---- typing environment from `quantities` ----------------------------------

_PQ = None


def _pq():
    global _PQ
    if _PQ is None:
        try:
            import quantities as pq
        except ImportError as e:  # pragma: no cover
            raise AnalysisError("the `quantities` package (typing environment of the unit checker) is not importable: %s" % e)
        _PQ = pq
    return _PQ


def _cls_base(pq):
    return {pq.UnitLength: "L", pq.UnitMass: "M", pq.UnitTime: "T", pq.UnitCurrent: "I", pq.UnitTemperature: "K",
            pq.UnitSubstance: "N", pq.UnitLuminousIntensity: "J"}


def _introspect(q):
    pq = _pq()
    try:
        s = q.simplified
    except Exception:
        return None
    cb = _cls_base(pq)
    dim = {}
    for k, v in s.dimensionality.items():
        b = None
        for cls, base in cb.items():
            if isinstance(k, cls):
                b = base
        if b is None:
            if k.__class__.__name__ in ("UnitQuantity", "Dimensionless") or str(k) in ("dimensionless",):
                continue
            # radians etc. count as dimensionless
            continue
        dim[b] = lx(Fraction(v).limit_denominator(1000))
    try:
        mag = float(s.magnitude)
    except Exception:
        return None
    return dim, mag


def pq_unit(name: str):
    """(dim, SI scale, canonical name) of quantities.<name> if it is a unit"""
    pq = _pq()
    q = getattr(pq, name, None)
    if q is None or not hasattr(q, "dimensionality") or not hasattr(q, "simplified"):
        return None
    info = _introspect(q)
    if info is None:
        return None
    canon = getattr(q, "name", name) or name
    return info[0], info[1], canon


def pq_const(name: str):
    pq = _pq()
    q = getattr(pq.constants, name, None)
    if q is None or not hasattr(q, "simplified"):
        if name == "pi":
            return {}, math.pi
        return None
    return _introspect(q)


class Namespace:
    """units / constants object: attribute -> V, with chempy's extras"""

    def __init__(self, name, extras: Optional[Dict[str, V]] = None):
        self.name = name
        self.extras = dict(extras or {})

    def get(self, attr) -> Optional[V]:
        if attr in self.extras:
            return self.extras[attr]
        if self.name == "units":
            info = pq_unit(attr)
            if info is None:
                return None
            dim, scale, canon = info
            return V("q", dim=dim, unit={"u:" + canon: F1}, val=lx(1), extra=dict(scale=scale))
        if self.name == "constants":
            info = pq_const(attr)
            if info is None:
                return None
            dim, mag = info
            unit = {}
            for b, e in dim.items():
                unit[SI_ATOM[b]] = lx_const(e)
            return V("q", dim=dim, unit=unit, val=lx(Fraction(mag)), extra=dict(scale=1.0, const=attr))
        return None


_SCALE_CACHE: Dict[str, float] = {}


def atom_scale(atom: str, extras=None) -> Optional[float]:
    if not atom.startswith("u:"):
        return None
    nm = atom[2:]
    if nm in _SCALE_CACHE:
        return _SCALE_CACHE[nm]
    if extras and nm in extras and extras[nm].extra:
        return extras[nm].extra.get("scale")
    info = pq_unit(nm)
    if info is None:
        pq = _pq()
        for cand in dir(pq):
            q = getattr(pq, cand, None)
            if getattr(q, "name", None) == nm and hasattr(q, "simplified"):
                info = pq_unit(cand)
                break
    if info is None:
        return None
    _SCALE_CACHE[nm] = info[1]
    return info[1]


def si_value(v: V, extras=None) -> Optional[float]:
    """magnitude in SI base units, if val and all unit atoms are concrete"""
    if v.kind != "q" or v.val is None or v.unit is None:
        return None
    c = lx_const(v.val)
    if c is None:
        return None
    x = float(c)
    for a, e in v.unit.items():
        s = atom_scale(a, extras)
        if s is None:
            return None
        x *= s ** float(e)
    return x


# ---- the interpreter -------------------------------------------------------

TRANSCENDENTAL = {"exp", "log", "log10", "log2", "sin", "cos", "tan", "tanh", "sinh", "cosh", "arctanh", "atanh", "arctan", "atan",
                  "log1p", "expm1", "asin", "acos", "arcsin", "arccos", "erf", "erfc", "exp2"}
RAW_NUMERIC = {"float", "int"}


class Report:
    def __init__(self, kind, node, msg, fn=None):
        self.kind, self.node, self.msg, self.fn = kind, node, msg, fn

    def __repr__(self):
        return "%s@%s: %s" % (self.kind, getattr(self.node, "lineno", "?"), self.msg)


class Interp:
    """Interprets one function in one mode.

    params:  name -> V   (typed parameters; untyped ones take their default)
    module_env: name -> V for module-level constants / namespaces
    resolver(name) -> (ast.FunctionDef, module_env) for in-repo callees (inlined, depth <= 3)
    """

    def __init__(self, fn, params: Dict[str, V], module_env: Dict[str, V], resolver: Optional[Callable] = None,
                 depth: int = 0, raw_backends: Optional[set] = None, label: str = "", hooks: Optional[dict] = None, units_extras=None):
        self.fn = fn
        self.module_env = module_env
        self.resolver = resolver
        self.depth = depth
        self.reports: List[Report] = []
        self.tops: List[str] = []
        self.returns: List[V] = []
        self.label = label
        self.hooks = hooks or {}
        self.units_extras = units_extras
        self.env: Dict[str, V] = {}
        self.final_env: Dict[str, V] = {}
        self._bind_params(params)

    # -- setup
    def _bind_params(self, params):
        a = self.fn.args
        pos = a.posonlyargs + a.args
        defaults = [None] * (len(pos) - len(a.defaults)) + list(a.defaults)
        for p, d in list(zip(pos, defaults)) + list(zip(a.kwonlyargs, a.kw_defaults)):
            if p.arg in params:
                self.env[p.arg] = params[p.arg]
            elif d is not None:
                self.env[p.arg] = self.eval(d, {})
            else:
                self.env[p.arg] = TOP
        if a.vararg:
            self.env[a.vararg.arg] = TOP
        if a.kwarg:
            self.env[a.kwarg.arg] = params.get(a.kwarg.arg, V("kwargs", items={}))

    def report(self, kind, node, msg):
        self.reports.append(Report(kind, node, msg, self.fn.name))

    def top(self, node, why=""):
        t = "%s:%s `%s`%s" % (self.fn.name, getattr(node, "lineno", "?"), U(node)[:60], (" (" + why + ")") if why else "")
        if t not in self.tops:
            self.tops.append(t)
        return TOP

    # -- running
    def run(self):
        self.env = self.block(self.fn.body, self.env)
        if self.env is not None:
            self.final_env = self.env
        return self

    def block(self, stmts, env):
        """returns env after the block, or None if every path returned/raised"""
        for s in stmts:
            if env is None:
                return None
            env = self.stmt(s, env)
        return env

    def merge(self, e1, e2):
        if e1 is None:
            return e2
        if e2 is None:
            return e1
        out = {}
        for k in set(e1) | set(e2):
            if k in e1 and k in e2:
                out[k] = join(e1[k], e2[k])
            else:
                out[k] = TOP
        return out

    def truth(self, node, env):
        """True / False / None(unknown) -- also evaluates the test (for reports)"""
        if isinstance(node, ast.BoolOp):
            vals = []
            for v in node.values:
                t = self.truth(v, env)
                vals.append(t)
                if isinstance(node.op, ast.And) and t is False:
                    return False
                if isinstance(node.op, ast.Or) and t is True:
                    return True
            if all(v is True for v in vals) and isinstance(node.op, ast.And):
                return True
            if all(v is False for v in vals) and isinstance(node.op, ast.Or):
                return False
            return None
        if isinstance(node, ast.UnaryOp) and isinstance(node.op, ast.Not):
            t = self.truth(node.operand, env)
            return None if t is None else (not t)
        if isinstance(node, ast.Compare) and len(node.ops) == 1 and isinstance(node.ops[0], (ast.Is, ast.IsNot)):
            l, r = self.eval(node.left, env), self.eval(node.comparators[0], env)
            res = None
            if r.kind == "none":
                if l.kind == "none":
                    res = True
                elif l.kind != "top":
                    res = False
            elif l.kind == "q" and r.kind == "q" and l.plain and r.plain and l.val is not None and r.val is not None:
                # `x is integer_one`: identity of small ints == equality for the constants the repo uses
                res = l.val == r.val
            elif l.kind != "top" and r.kind != "top" and l.kind != r.kind:
                res = False
            elif l.kind == "q" and r.kind == "q" and r.plain and not l.plain and l.unit is not None:
                res = False
            if res is None:
                return None
            return res if isinstance(node.ops[0], ast.Is) else (not res)
        v = self.eval(node, env)
        if v.kind == "none":
            return False
        if v.kind == "bool":
            return v.val if isinstance(v.val, bool) else None
        if v.kind == "ns" or v.kind == "be":
            return True
        if v.kind == "q" and v.plain and v.val is not None:
            c = lx_const(v.val)
            return None if c is None else (c != 0)
        if v.kind == "str":
            return bool(v.name) if v.name is not None else None
        return None

    def stmt(self, s, env):
        if isinstance(s, ast.Expr):
            self.eval(s.value, env)
            return env
        if isinstance(s, ast.Assign):
            v = self.eval(s.value, env)
            env = dict(env)
            for t in s.targets:
                self.assign(t, v, env, s.value)
            return env
        if isinstance(s, ast.AnnAssign):
            if s.value is not None:
                env = dict(env)
                self.assign(s.target, self.eval(s.value, env), env, s.value)
            return env
        if isinstance(s, ast.AugAssign):
            cur = self.eval(_load(s.target), env)
            rhs = self.eval(s.value, env)
            v = self.binop(s.op, cur, rhs, s)
            env = dict(env)
            self.assign(s.target, v, env, None)
            return env
        if isinstance(s, ast.If):
            t = self.truth(s.test, env)
            if t is True:
                return self.block(s.body, env)
            if t is False:
                return self.block(s.orelse, env)
            return self.merge(self.block(s.body, dict(env)), self.block(s.orelse, dict(env)))
        if isinstance(s, ast.Return):
            self.returns.append(self.eval(s.value, env) if s.value is not None else NONE)
            self.final_env = self.merge(self.final_env or None, env) if self.final_env else env
            return None
        if isinstance(s, ast.Raise):
            return None
        if isinstance(s, (ast.For, ast.AsyncFor)):
            it = self.eval(s.iter, env)
            elem = self.iter_elem(it, s.iter)
            cur = env
            for _ in range(3):
                e2 = dict(cur)
                self.assign(s.target, elem, e2, None)
                out = self.block(s.body, e2)
                nxt = self.merge(cur, out)
                if _env_eq(nxt, cur):
                    break
                cur = nxt
            if s.orelse:
                cur = self.block(s.orelse, cur)
            return cur
        if isinstance(s, ast.While):
            cur = env
            self.truth(s.test, cur)
            for _ in range(3):
                out = self.block(s.body, dict(cur))
                nxt = self.merge(cur, out)
                if _env_eq(nxt, cur):
                    break
                cur = nxt
                self.truth(s.test, cur)
            return cur
        if isinstance(s, ast.Try):
            saved = getattr(self, "_maybe_attr_error", False)
            self._maybe_attr_error = False
            out = self.block(s.body, dict(env))
            may_attr = self._maybe_attr_error
            self._maybe_attr_error = saved or may_attr
            if out is not None and s.orelse:
                out = self.block(s.orelse, out)
            res = out
            only_attr = all(h.type is not None and dotted(h.type) == "AttributeError" for h in s.handlers)
            handlers = [] if (only_attr and not may_attr and out is not None) else s.handlers
            for h in handlers:
                # handlers are alternative paths starting from the pre-state
                sub = Interp.__new__(Interp)
                sub.__dict__.update(self.__dict__)
                sub.reports = []  # reports inside a handler of AttributeError (no-units fallbacks) are kept
                hout = sub.block(h.body, dict(env))
                self.reports.extend(sub.reports)
                res = self.merge(res, hout)
            if s.finalbody and res is not None:
                res = self.block(s.finalbody, res)
            return res
        if isinstance(s, ast.With):
            return self.block(s.body, env)
        if isinstance(s, (ast.FunctionDef, ast.ClassDef, ast.Import, ast.ImportFrom, ast.Pass, ast.Assert, ast.Global, ast.Nonlocal, ast.Delete)):
            if isinstance(s, (ast.Import, ast.ImportFrom)):
                env = dict(env)
                for a in s.names:
                    nm = (a.asname or a.name).split(".")[0]
                    env[nm] = V("be", name=a.name) if a.name in ("math", "numpy", "sympy") else TOP
            return env
        if isinstance(s, (ast.Break, ast.Continue)):
            return env
        return env

    def assign(self, target, v, env, valnode):
        if isinstance(target, ast.Name):
            env[target.id] = v
        elif isinstance(target, (ast.Tuple, ast.List)):
            if v.kind == "tuple" and len(v.items) == len(target.elts):
                for t, x in zip(target.elts, v.items):
                    self.assign(t, x, env, None)
            else:
                for t in target.elts:
                    self.assign(t, TOP if v.kind != "q" else v, env, None)
        elif isinstance(target, ast.Subscript) and isinstance(target.value, ast.Name):
            cur = env.get(target.value.id)
            if cur is not None and cur.kind == "tuple":
                try:
                    i = fold(target.slice, {})
                    items = list(cur.items)
                    items[i] = v
                    env[target.value.id] = V("tuple", items=items)
                    return
                except (NotLiteral, IndexError, TypeError):
                    pass
            if cur is not None and cur.kind == "dict" and isinstance(target.slice, ast.Constant) and cur.items is not None:
                items = dict(cur.items)
                items[target.slice.value] = v
                env[target.value.id] = V("dict", items=items)
                return
            if cur is not None and cur.kind == "q":
                env[target.value.id] = join(cur, v) if not v.is_top else TOP
            else:
                env[target.value.id] = TOP
        # attribute targets: ignored

    def iter_elem(self, it: V, node) -> V:
        if it.kind == "tuple":
            out = None
            for x in it.items:
                out = x if out is None else join(out, x)
            return out if out is not None else TOP
        if it.kind == "range":
            return V("q", dim={}, unit={}, val=None)
        if it.kind == "q":
            return V("q", dim=it.dim, unit=it.unit, val=None)
        if it.kind == "mapping":
            return it.extra[0]
        return TOP

    # -- expressions
    def eval(self, node, env) -> V:
        try:
            return self._eval(node, env)
        except RecursionError:
            raise
        except AnalysisError:
            raise

    def lookup(self, name, env, node):
        if name in env:
            return env[name]
        if name in self.module_env:
            return self.module_env[name]
        if self.resolver is not None:
            tgt = self.resolver(name)
            if tgt is not None:
                return V("func", name=name)
        if name in ("True", "False"):
            return V("bool", val=(name == "True"))
        if name in ("math", "np", "numpy", "sympy"):
            return V("be", name={"np": "numpy"}.get(name, name))
        return self.top(node, "unbound name")

    def _eval(self, node, env) -> V:
        if node is None:
            return NONE
        if isinstance(node, ast.Constant):
            c = node.value
            if c is None:
                return NONE
            if isinstance(c, bool):
                return V("bool", val=c)
            if isinstance(c, (int, float)):
                if isinstance(c, float) and (math.isinf(c) or math.isnan(c)):
                    return V("q", dim={}, unit={}, val=None)
                return num(c)
            if isinstance(c, str):
                return V("str", name=c)
            return TOP
        if isinstance(node, ast.Name):
            return self.lookup(node.id, env, node)
        if isinstance(node, ast.Attribute):
            return self.attribute(node, env)
        if isinstance(node, ast.BinOp):
            l, r = self._eval(node.left, env), self._eval(node.right, env)
            return self.binop(node.op, l, r, node)
        if isinstance(node, ast.UnaryOp):
            v = self._eval(node.operand, env)
            if isinstance(node.op, ast.Not):
                return BOOL
            if v.kind == "q":
                if isinstance(node.op, ast.USub):
                    return V("q", dim=v.dim, unit=v.unit, val=None if v.val is None else lx_scale(v.val, -1))
                return v
            return v if v.kind == "q" else TOP
        if isinstance(node, ast.Compare):
            left = self._eval(node.left, env)
            for op, c in zip(node.ops, node.comparators):
                right = self._eval(c, env)
                if isinstance(op, (ast.Lt, ast.LtE, ast.Gt, ast.GtE, ast.Eq, ast.NotEq)):
                    self.homogeneous(left, right, node, "comparison")
                    hc = self.hooks.get("compare")
                    if hc:
                        hc(self, node, op, left, right)
                left = right
            return BOOL
        if isinstance(node, ast.BoolOp):
            vals = [self._eval(v, env) for v in node.values]
            fns = [v for v in vals if v.kind == "befn"]
            if fns and all(v.kind in ("befn", "none") for v in vals):
                return fns[0]  # `getattr(be, 'atanh', None) or be.arctanh`: some elementary function of the backend
            return BOOL
        if isinstance(node, ast.IfExp):
            t = self.truth(node.test, env)
            if t is True:
                return self._eval(node.body, env)
            if t is False:
                return self._eval(node.orelse, env)
            return join(self._eval(node.body, env), self._eval(node.orelse, env))
        if isinstance(node, (ast.Tuple, ast.List)):
            return V("tuple", items=[self._eval(e, env) for e in node.elts])
        if isinstance(node, ast.Subscript):
            base = self._eval(node.value, env)
            if isinstance(node.slice, ast.Slice):
                if base.kind == "tuple":
                    try:
                        lo = fold(node.slice.lower, {}) if node.slice.lower else None
                        hi = fold(node.slice.upper, {}) if node.slice.upper else None
                        return V("tuple", items=base.items[lo:hi])
                    except NotLiteral:
                        return TOP
                return base if base.kind == "q" else TOP
            idx = self._eval(node.slice, env)
            if base.kind == "tuple":
                if idx.kind == "q" and idx.val is not None and lx_const(idx.val) is not None:
                    i = int(lx_const(idx.val))
                    if -len(base.items) <= i < len(base.items):
                        return base.items[i]
                    return TOP
                return self.iter_elem(base, node)
            if base.kind == "q":
                return V("q", dim=base.dim, unit=base.unit, val=None)
            if base.kind == "mapping":
                return base.extra[1]
            if base.kind == "dict":
                if idx.kind == "str" and base.items is not None and idx.name in base.items:
                    return base.items[idx.name]
                h = self.hooks.get("subscript")
                if h:
                    r = h(self, base, idx, node)
                    if r is not None:
                        return r
                return self.top(node, "dict subscript")
            h = self.hooks.get("subscript")
            if h:
                r = h(self, base, idx, node)
                if r is not None:
                    return r
            return self.top(node, "subscript of %s" % base.kind)
        if isinstance(node, (ast.ListComp, ast.GeneratorExp)) and len(node.generators) == 1 and not node.generators[0].ifs:
            it0 = self._eval(node.generators[0].iter, env)
            if it0.kind == "tuple" and it0.name != "comp" and 0 < len(it0.items) <= 16:
                outs = []
                for x in it0.items:
                    e = dict(env)
                    self.assign(node.generators[0].target, x, e, None)
                    outs.append(self._eval(node.elt, e))
                return V("tuple", items=outs)
        if isinstance(node, (ast.ListComp, ast.GeneratorExp)):
            e = dict(env)
            for g in node.generators:
                it = self._eval(g.iter, e)
                if it.kind == "tuple" and isinstance(g.target, ast.Tuple) and it.items and all(x.kind == "tuple" for x in it.items):
                    # zip(...) of tuples: join per position
                    elem = None
                    for x in it.items:
                        elem = x if elem is None else join(elem, x)
                else:
                    elem = self.iter_elem(it, g.iter)
                self.assign(g.target, elem, e, None)
                for c in g.ifs:
                    self._eval(c, e)
            return V("tuple", items=[self._eval(node.elt, e)], name="comp")
        if isinstance(node, ast.Dict):
            items = {}
            for k, v in zip(node.keys, node.values):
                if isinstance(k, ast.Constant):
                    items[k.value] = self._eval(v, env)
            return V("dict", items=items)
        if isinstance(node, ast.Call):
            return self.call(node, env)
        if isinstance(node, ast.Lambda):
            return V("lambda", extra=node)
        if isinstance(node, ast.JoinedStr):
            return V("str")
        if isinstance(node, ast.Starred):
            return self._eval(node.value, env)
        return self.top(node, type(node).__name__)

    def attribute(self, node, env) -> V:
        base = self._eval(node.value, env)
        if base.kind == "ns":
            ns: Namespace = base.extra
            v = ns.get(node.attr)
            if v is None:
                self.report("missing-attribute", node, "`%s.%s`: the %s object has no attribute %r" % (U(node.value), node.attr, ns.name, node.attr))
                return TOP
            return v
        if base.kind == "be":
            if node.attr == "pi":
                return num(Fraction(math.pi))
            if node.attr == "e":
                return num(Fraction(math.e))
            return V("befn", name=node.attr, extra=base.name)
        if node.attr in ("simplified", "rescale", "dimensionality", "units", "magnitude") and (base.kind != "q" or base.plain or base.unit is None):
            self._maybe_attr_error = True
        if base.kind == "q":
            if node.attr == "simplified":
                if base.dim is None:
                    return TOP
                unit = {SI_ATOM[b]: lx_const(e) for b, e in base.dim.items() if b in SI_ATOM and lx_const(e) is not None}
                if len(unit) != len(base.dim):
                    unit = None
                return V("q", dim=base.dim, unit=unit, val=None)
            if node.attr in ("dimensionality", "units"):
                return V("q", dim=base.dim, unit=base.unit, val=lx(1), name="unitof")
            if node.attr == "magnitude":
                self.raw_sink(base, node, ".magnitude")
                return V("q", dim={}, unit={}, val=base.val, name="magnitude")
            if node.attr in ("rescale",):
                return V("method", name="rescale", extra=base)
            if node.attr == "T":
                return base
        if base.kind == "mapping" and node.attr in ("items", "values", "keys", "get"):
            return V("mapmethod", name=node.attr, extra=base.extra)
        if base.kind == "top" and node.attr in ("simplified",):
            return TOP
        h = self.hooks.get("attribute")
        if h:
            r = h(self, base, node)
            if r is not None:
                return r
        if base.kind == "q" and node.attr in ("reshape", "item", "tolist", "flatten", "squeeze", "sum", "copy"):
            return V("method", name=node.attr, extra=base)
        return self.top(node, "attribute of %s" % base.kind)

    def homogeneous(self, l: V, r: V, node, what):
        if l.kind != "q" or r.kind != "q" or l.dim is None or r.dim is None:
            return
        # a literal zero is compatible with anything (quantities accepts `x * 0`-style operands)
        if l.dim != r.dim:
            self.report("inhomogeneous", node, "%s of quantities with different dimensions: `%s` is %s, `%s` is %s" % (
                what, _side(node, 0), dim_str(l.dim), _side(node, 1), dim_str(r.dim)))

    def binop(self, op, l: V, r: V, node) -> V:
        if l.kind == "dimdict" or r.kind == "dimdict":
            h = self.hooks.get("dimdict_binop")
            if h:
                return h(self, op, l, r, node)
        if l.kind == "tuple" and r.kind == "q" and isinstance(op, ast.Mult):
            return l  # (x,) * n
        if l.kind != "q" or r.kind != "q":
            return TOP
        if isinstance(op, (ast.Add, ast.Sub)):
            self.homogeneous(l, r, node, "addition" if isinstance(op, ast.Add) else "subtraction")
            if l.dim is None or r.dim is None:
                return TOP
            if l.dim != r.dim:
                return TOP
            val = None
            if l.val is not None and r.val is not None and l.unit == r.unit:
                val = lx_add(l.val, r.val, 1 if isinstance(op, ast.Add) else -1)
            unit = l.unit if (l.unit is not None and (l.unit or l.dim == {} and r.unit == {})) else (l.unit if l.unit == r.unit else l.unit)
            return V("q", dim=l.dim, unit=unit, val=val)
        if isinstance(op, ast.Mult):
            val = lx_mul(l.val, r.val) if l.val is not None and r.val is not None else None
            if l.dim is None or r.dim is None:
                return TOP
            return V("q", dim=dim_mul(l.dim, r.dim), unit=unit_mul(l.unit, r.unit), val=val)
        if isinstance(op, (ast.Div, ast.FloorDiv)):
            val = None
            if l.val is not None and r.val is not None:
                c = lx_const(r.val)
                if c:
                    val = lx_scale(l.val, 1 / c)
            if l.dim is None or r.dim is None:
                return TOP
            return V("q", dim=dim_mul(l.dim, r.dim, -1), unit=unit_mul(l.unit, r.unit, -1), val=val)
        if isinstance(op, ast.Pow):
            # exponent must be a dimensionless number
            if r.dim:
                self.report("dimensional-exponent", node, "exponent `%s` has dimension %s" % (_side(node, 1), dim_str(r.dim)))
                return TOP
            if r.dim is None:
                return TOP
            if r.unit is not None and any(a.startswith("U:") for a in r.unit):
                self.report("scaled-exponent", node, "exponent `%s` is read as a bare magnitude but carries the caller-chosen unit ratio %s" % (_side(node, 1), _unit_str(r.unit)))
            if l.dim == {} and (l.unit == {} or l.unit is None):
                val = None
                if l.val is not None and r.val is not None:
                    cb, ce = lx_const(l.val), lx_const(r.val)
                    if cb is not None and ce is not None and ce.denominator == 1 and abs(ce) < 64 and (cb != 0 or ce >= 0):
                        val = lx(cb ** int(ce))
                    elif cb is not None and ce is not None and cb > 0:
                        try:
                            val = lx(Fraction(float(cb) ** float(ce)))
                        except (OverflowError, ValueError):
                            val = None
                return V("q", dim={}, unit=l.unit if l.unit is not None else None, val=val)
            e = r.val
            if e is None:
                # unknown numeric exponent: dimension unknown unless base is dimensionless
                if l.dim == {}:
                    tainted = l.unit is not None and any(a_.startswith("U:") for a_ in l.unit)
                    # a scaled dimensionless base stays scale dependent for every non-zero power
                    return V("q", dim={}, unit=l.unit if tainted else None, val=None)
                return self.top(node, "unknown exponent")
            d = dim_pow(l.dim, e) if l.dim is not None else None
            if d is None:
                return self.top(node, "non-linear exponent")
            val = None
            if l.val is not None:
                cb, ce = lx_const(l.val), lx_const(e)
                if cb is not None and ce is not None:
                    if ce.denominator == 1 and abs(ce) < 64 and (cb != 0 or ce >= 0):
                        val = lx(cb ** int(ce))
                    elif cb > 0:
                        try:
                            val = lx(Fraction(float(cb) ** float(ce)))
                        except (OverflowError, ValueError):
                            val = None
            return V("q", dim=d, unit=unit_pow(l.unit, e), val=val)
        if isinstance(op, ast.Mod):
            return V("q", dim=l.dim, unit=l.unit, val=None)
        return TOP

    # -- calls
    def call(self, node: ast.Call, env) -> V:
        fname = dotted(node.func)
        args = [self._eval(a, env) for a in node.args]
        kws = {k.arg: self._eval(k.value, env) for k in node.keywords if k.arg}
        for k in node.keywords:
            if k.arg is None:
                kv = self._eval(k.value, env)
                if kv.kind == "kwargs" and kv.items:
                    kws.update(kv.items)
        h = self.hooks.get("call")
        if h:
            r = h(self, node, fname, args, kws, env)
            if r is not None:
                return r
        # method calls on abstract values
        fv = None
        if isinstance(node.func, ast.Attribute):
            fv = self._eval(node.func, env)
        elif isinstance(node.func, ast.Name) and node.func.id in env:
            fv = env[node.func.id]
        if fv is not None and fv.kind == "method":
            base = fv.extra
            if fv.name == "rescale":
                tgt = args[0] if args else TOP
                if tgt.kind == "q" and base.dim is not None and tgt.dim is not None and base.dim != tgt.dim:
                    self.report("rescale-mismatch", node, "rescale of a %s quantity to a %s unit" % (dim_str(base.dim), dim_str(tgt.dim)))
                return V("q", dim=base.dim, unit=tgt.unit if tgt.kind == "q" else None, val=None)
            return V("q", dim=base.dim, unit=base.unit, val=None)
        if fv is not None and fv.kind == "func" and fname != fv.name:
            fname = fv.name
        if fv is not None and fv.kind == "mapmethod":
            k, v = fv.extra
            if fv.name == "items":
                return V("tuple", items=[V("tuple", items=[k, v])], name="comp")
            if fv.name == "values":
                return V("tuple", items=[v], name="comp")
            if fv.name == "keys":
                return V("tuple", items=[k], name="comp")
            if fv.name == "get":
                return v
        if fv is not None and fv.kind == "befn":
            return self.math_call(fv.name, fv.extra, args, node, raw=(fv.extra == "math"))
        if fname == "getattr" and len(args) >= 2 and args[0].kind == "be" and isinstance(node.args[1], ast.Constant) and isinstance(node.args[1].value, str):
            return V("befn", name=node.args[1].value, extra=args[0].name)
        short = (fname or "").split(".")[-1]
        if fname in RAW_NUMERIC:
            if args:
                self.raw_sink(args[0], node, fname)
            return V("q", dim={}, unit={}, val=args[0].val if args and args[0].kind == "q" and args[0].plain else None)
        if fname in ("abs",):
            return V("q", dim=args[0].dim, unit=args[0].unit, val=None) if args and args[0].kind == "q" else TOP
        if fname in ("_any", "any", "all", "np.any", "np.all", "numpy.any", "isinstance", "hasattr", "callable", "len", "np.isnan"):
            return BOOL if fname != "len" else V("q", dim={}, unit={}, val=None)
        if fname in ("sum", "np.sum", "numpy.sum", "_sum", "max", "min", "np.max", "np.min"):
            if args and args[0].kind == "tuple":
                out = None
                for x in args[0].items:
                    if out is not None and x.kind == "q" and out.kind == "q":
                        self.homogeneous(out, x, node, "summation")
                    out = x if out is None else join(out, x)
                if out is not None and out.kind == "q":
                    return V("q", dim=out.dim, unit=out.unit, val=None)
                return TOP
            if args and args[0].kind == "q":
                return V("q", dim=args[0].dim, unit=args[0].unit, val=None)
            return TOP
        if fname in ("np.array", "np.asarray", "numpy.array", "np.atleast_1d", "np.ones", "np.zeros", "list", "tuple"):
            if args and args[0].kind == "tuple":
                out = None
                for x in args[0].items:
                    out = x if out is None else join(out, x)
                if fname in ("list", "tuple"):
                    return args[0]
                return out if out is not None else TOP
            return args[0] if args else TOP
        if fname == "range":
            return V("range")
        if fname in ("zip",):
            # zip(a, b) -> tuple of tuples (joined per position)
            if all(a.kind == "tuple" for a in args) and args:
                n = min(len(a.items) for a in args)
                if all(a.name != "comp" for a in args):
                    return V("tuple", items=[V("tuple", items=[a.items[i] for a in args]) for i in range(n)])
            return V("tuple", items=[V("tuple", items=[self.iter_elem(a, node) for a in args])])
        if fname == "enumerate":
            return V("tuple", items=[V("tuple", items=[V("q", dim={}, unit={}, val=None), self.iter_elem(args[0], node)])]) if args else TOP
        if fname in ("warnings.warn", "print"):
            return NONE
        if short in TRANSCENDENTAL and fname and (fname.startswith("math.") or fname.startswith("np.") or fname.startswith("numpy.")):
            return self.math_call(short, fname.split(".")[0], args, node, raw=fname.startswith("math."))
        if short == "sqrt" and fname and fname.split(".")[0] in ("math", "np", "numpy"):
            if args and args[0].kind == "q" and args[0].dim is not None:
                return V("q", dim=dim_pow(args[0].dim, lx(Fraction(1, 2))), unit=unit_pow(args[0].unit, lx(Fraction(1, 2))), val=None)
            return TOP
        if fname == "to_unitless":
            x = args[0] if args else TOP
            if len(args) > 1 and args[1].kind == "q" and x.kind == "q" and x.dim is not None and args[1].dim is not None and x.dim != args[1].dim:
                self.report("to_unitless-mismatch", node, "to_unitless of a %s quantity w.r.t. a %s unit" % (dim_str(x.dim), dim_str(args[1].dim)))
            if len(args) == 1 and x.kind == "q" and x.dim:
                self.report("to_unitless-mismatch", node, "to_unitless() of a %s quantity without target unit" % dim_str(x.dim))
            return V("q", dim={}, unit={}, val=None)
        if fname == "get_backend":
            b = args[0] if args else kws.get("backend", NONE)
            if b.kind == "be":
                return b
            if b.kind == "none":
                return V("be", name="numpy")
            return V("be", name="?")
        if fname == "float" or fname == "int":
            return V("q", dim={}, unit={}, val=None)
        # in-repo call
        if self.resolver is not None and fname is not None and self.depth < 3:
            target = self.resolver(fname)
            if target is not None:
                cfn, cmod_env = target
                params = {}
                a = cfn.args
                names = [p.arg for p in a.posonlyargs + a.args]
                for n_, v in zip(names, args):
                    params[n_] = v
                for k, v in kws.items():
                    if k in names or k in [p.arg for p in a.kwonlyargs]:
                        params[k] = v
                    elif a.kwarg:
                        params.setdefault(a.kwarg.arg, V("kwargs", items={})).items[k] = v
                sub = Interp(cfn, params, cmod_env, self.resolver, self.depth + 1, label=self.label, hooks=self.hooks, units_extras=self.units_extras)
                sub.run()
                self.reports.extend(sub.reports)
                for t in sub.tops:
                    if t not in self.tops:
                        self.tops.append(t)
                out = None
                for rv in sub.returns:
                    out = rv if out is None else join(out, rv)
                return out if out is not None else NONE
        if fv is not None and fv.kind == "lambda":
            return TOP
        return self.top(node, "unknown call")

    def raw_sink(self, x: V, node, what):
        """`what` reads the bare magnitude of x"""
        if isinstance(node, ast.Attribute):
            shown = U(node.value)[:60]
        elif isinstance(node, ast.Call) and node.args:
            shown = U(node.args[0])[:60]
        else:
            shown = ""
        if x.kind != "q" or x.unit is None:
            return
        opaque_atoms = [a for a in x.unit if a.startswith("U:")]
        if opaque_atoms:
            self.report("raw-magnitude", node, "%s(%s) reads the bare magnitude of a value still carrying the caller-chosen unit(s) %s: the result depends on the units the inputs are expressed in" % (
                what, shown, _unit_str(x.unit)))
        elif x.unit:
            # concrete units that do not cancel textually: scale must be 1
            s = 1.0
            ok = True
            for a, e in x.unit.items():
                sc = atom_scale(a, self.units_extras)
                if sc is None:
                    ok = False
                    break
                s *= sc ** float(e)
            if ok and x.dim == {} and abs(s - 1) > 1e-12:
                self.report("raw-magnitude", node, "%s(...) reads the bare magnitude of a value in units %s (scale %g)" % (what, _unit_str(x.unit), s))

    def math_call(self, fn, modname, args, node, raw):
        if fn == "sqrt":
            x = args[0] if args else TOP
            if x.kind == "q" and x.dim is not None:
                return V("q", dim=dim_pow(x.dim, lx(Fraction(1, 2))), unit=unit_pow(x.unit, lx(Fraction(1, 2))), val=None)
            return TOP
        if fn in TRANSCENDENTAL:
            x = args[0] if args else TOP
            if x.kind == "q" and x.dim:
                self.report("transcendental", node, "%s of `%s`, which has dimension %s" % (fn, U(node.args[0])[:60] if node.args else "", dim_str(x.dim)))
            elif x.kind == "q" and x.dim == {} and raw:
                self.raw_sink(x, node, "%s.%s" % (modname, fn))
            # f(0) for the elementary functions (constant folding only)
            if x.kind == "q" and x.dim == {} and x.unit == {} and x.val is not None and lx_const(x.val) == 0:
                if fn in ("cos", "exp", "cosh", "exp2"):
                    return num(1)
                if fn in ("sin", "tan", "sinh", "tanh", "asin", "arcsin", "atan", "arctan", "asinh", "arcsinh", "atanh", "arctanh", "expm1", "log1p"):
                    return num(0)
            return V("q", dim={}, unit={}, val=None)
        if fn in ("abs", "fabs", "asarray", "array", "sum", "atleast_1d", "squeeze", "ones_like", "zeros_like"):
            x = args[0] if args else TOP
            if x.kind == "tuple":
                out = None
                for y in x.items:
                    out = y if out is None else join(out, y)
                    if fn in ("array", "asarray") and y.kind == "q" and y.unit and any(a_.startswith("U:") for a_ in y.unit) and y.dim == {}:
                        # numpy builds the array from the bare magnitudes of the (dimensionless but scaled) elements
                        self.raw_sink(y, node, "%s.%s" % (modname, fn))
                x = out if out is not None else TOP
            return V("q", dim=x.dim, unit=x.unit, val=None) if x.kind == "q" else x
        if fn in ("any", "all", "isnan", "isfinite"):
            return BOOL
        return TOP


def _load(t):
    import copy
    n = copy.deepcopy(t)
    for x in ast.walk(n):
        if hasattr(x, "ctx"):
            x.ctx = ast.Load()
    return n


def _env_eq(a, b):
    if a is None or b is None:
        return a is b
    if set(a) != set(b):
        return False
    for k in a:
        x, y = a[k], b[k]
        if x is y:
            continue
        if x.kind != y.kind:
            return False
        if x.kind == "q" and (x.dim != y.dim or x.unit != y.unit or x.val != y.val):
            return False
    return True


def _side(node, i):
    if isinstance(node, ast.BinOp):
        return U(node.left if i == 0 else node.right)[:50]
    if isinstance(node, ast.Compare):
        return U(node.left if i == 0 else node.comparators[0])[:50]
    if isinstance(node, ast.AugAssign):
        return U(node.target if i == 0 else node.value)[:50]
    return "?"


def _unit_str(u):
    if u is None:
        return "?"
    if not u:
        return "1"
    return "*".join("%s^%s" % (a.split(":", 1)[1] if a.startswith("u:") else "unit(%s)" % a[2:], e) if e != 1 else (a.split(":", 1)[1] if a.startswith("u:") else "unit(%s)" % a[2:]) for a, e in sorted(u.items()))


# ---- chempy's additions to the units namespace ------------------------------


def load_chempy_units(repo) -> Dict[str, V]:
    """Interpret the `default_units.X = ...` assignments of chempy/units.py over
    the introspected `quantities` namespace.  Returns name -> V."""
    m = repo.mod("chempy/units.py")
    units = Namespace("units")
    consts = Namespace("constants")
    env = {"default_units": V("ns", name="units", extra=units), "pq": V("ns", name="units", extra=units),
           "default_constants": V("ns", name="constants", extra=consts)}
    dummy = ast.parse("def _f():\n    pass").body[0]
    it = Interp(dummy, {}, env)

    def hook(interp, node, fname, args, kws, env_):
        if fname and fname.endswith("UnitQuantity") and len(node.args) >= 2:
            v = args[1]
            if v.kind == "q":
                sv = si_value(v, units.extras)
                return V("q", dim=v.dim, unit={"u:" + (fold(node.args[0], {}) if isinstance(node.args[0], ast.Constant) else "?"): F1}, val=lx(1),
                         extra=dict(scale=sv, definition=v))
            return TOP
        return None
    it.hooks = {"call": hook}
    out: Dict[str, V] = {}

    def visit(stmts):
        for s in stmts:
            if isinstance(s, ast.Assign):
                tgts = [t for t in s.targets if isinstance(t, ast.Attribute) and dotted(t.value) == "default_units"]
                if tgts:
                    v = it.eval(s.value, env)
                    for t in tgts:
                        if v.kind == "q":
                            if not (v.extra and "scale" in v.extra):
                                v = V("q", dim=v.dim, unit=v.unit, val=v.val, extra=dict(scale=si_value(v, units.extras)))
                            units.extras[t.attr] = v
                            # a UnitQuantity registers its own atom name
                            for a in (v.unit or {}):
                                if a.startswith("u:") and v.extra.get("scale") is not None and len(v.unit) == 1:
                                    _SCALE_CACHE.setdefault(a[2:], v.extra["scale"])
                            out[t.attr] = v
                        else:
                            out[t.attr] = v
            elif isinstance(s, ast.If):
                visit(s.body)
                visit(s.orelse)
            elif isinstance(s, ast.Try):
                visit(s.body)
                visit(s.orelse)
                for h in s.handlers:
                    visit(h.body)
    visit(m.tree.body)
    out["__reports__"] = it.reports
    return out


def units_ns(repo) -> V:
    extras = {k: v for k, v in load_chempy_units(repo).items() if isinstance(v, V) and v.kind == "q"}
    return V("ns", name="units", extra=Namespace("units", extras))


def constants_ns() -> V:
    return V("ns", name="constants", extra=Namespace("constants"))
