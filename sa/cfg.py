"""E3 -- statement-level control-flow graph for one function.

Nodes are simple statements and the *heads* of compound statements (the test of
an `if`/`while`, the iterator of a `for`, the `with` items, a `try` marker).
Edges out of an `if`/`while` head carry the polarity ('T'/'F'); edges out of a
`for` head carry 'iter' / 'done'.  `prune(test) -> True|False|None` lets the
caller specialise the graph to a mode (e.g. ``units is None`` is False).
"""
from __future__ import annotations

import ast
from typing import Callable, Dict, List, Optional, Set, Tuple

ENTRY, EXIT, RAISE = "ENTRY", "EXIT", "RAISE"


class Node:
    __slots__ = ("id", "kind", "ast", "stmt")

    def __init__(self, id, kind, astnode, stmt):
        self.id = id
        self.kind = kind  # stmt | if | while | for | with | try | return | raise | break | continue | entry | exit | raiseexit
        self.ast = astnode  # test / iter expression or the statement
        self.stmt = stmt  # owning statement

    def __repr__(self):
        line = getattr(self.stmt, "lineno", "-")
        return "<%s %s L%s>" % (self.id, self.kind, line)


class CFG:
    def __init__(self):
        self.nodes: Dict[int, Node] = {}
        self.succ: Dict[int, List[Tuple[int, str]]] = {}
        self.by_stmt: Dict[ast.AST, int] = {}
        self._n = 0
        self.entry = self._new("entry", None, None)
        self.exit = self._new("exit", None, None)
        self.raise_exit = self._new("raiseexit", None, None)

    def _new(self, kind, astnode, stmt):
        i = self._n
        self._n += 1
        self.nodes[i] = Node(i, kind, astnode, stmt)
        self.succ[i] = []
        if stmt is not None and stmt not in self.by_stmt:
            self.by_stmt[stmt] = i
        return i

    def edge(self, a, b, label=""):
        if (b, label) not in self.succ[a]:
            self.succ[a].append((b, label))

    def node_of(self, stmt) -> int:
        return self.by_stmt[stmt]

    def live(self, stmt) -> bool:
        """Is the statement present in this (mode-pruned) graph and reachable?"""
        n = self.by_stmt.get(stmt)
        return n is not None and n in self.reachable()

    # ---- queries -------------------------------------------------------
    def reach(self, start: int, avoid: Set[int] = frozenset(), first_labels: Optional[Set[str]] = None) -> Set[int]:
        """Nodes reachable from `start` (start itself included only if on a
        cycle or trivially) without entering a node in `avoid`."""
        seen = set()
        todo = []
        for b, lab in self.succ[start]:
            if first_labels is None or lab in first_labels:
                todo.append(b)
        while todo:
            n = todo.pop()
            if n in seen or n in avoid:
                continue
            seen.add(n)
            todo.extend(b for b, _ in self.succ[n])
        return seen

    def reachable(self) -> Set[int]:
        return self.reach(self.entry) | {self.entry}

    def must_pass(self, through: Set[int], dest: int, start: Optional[int] = None) -> bool:
        """Every path start→dest goes through a node in `through`."""
        s = self.entry if start is None else start
        if dest in through:
            return True
        return dest not in self.reach(s, avoid=set(through))

    def returns(self) -> List[int]:
        r = self.reachable()
        return [i for i, n in self.nodes.items() if n.kind == "return" and i in r]

    def normal_exits(self) -> List[int]:
        """Reachable nodes with an edge into EXIT (returns and fall-off)."""
        r = self.reachable()
        return [i for i in r if any(b == self.exit for b, _ in self.succ[i])]

    def paths(self, start: int, stop: Set[int], limit: int = 4000, max_visits: int = 1):
        """Enumerate paths from start until a node in `stop` (inclusive) with
        every node visited at most `max_visits` times."""
        out = []
        stack = [(start, (start,), {start: 1})]
        while stack:
            n, path, cnt = stack.pop()
            if n in stop and len(path) > 1:
                out.append(path)
                if len(out) > limit:
                    raise OverflowError("path limit")
                continue
            for b, lab in self.succ[n]:
                c = cnt.get(b, 0)
                if c >= max_visits:
                    continue
                c2 = dict(cnt)
                c2[b] = c + 1
                stack.append((b, path + (b,), c2))
        return out


def build(fn, prune: Optional[Callable] = None) -> CFG:
    g = CFG()
    body = fn.body if hasattr(fn, "body") else fn

    # each do_* returns the list of dangling exits [(node, label)] to be
    # connected to whatever comes next
    def seq(stmts, preds, loop, handlers):
        for s in stmts:
            preds = stmt(s, preds, loop, handlers)
        return preds

    def connect(preds, n):
        for p, lab in preds:
            g.edge(p, n, lab)

    def raise_targets(n, handlers):
        # an exception raised at n may go to any enclosing handler or out
        for h in handlers:
            g.edge(n, h, "exc")
        g.edge(n, g.raise_exit, "exc")

    def stmt(s, preds, loop, handlers):
        if isinstance(s, ast.If):
            n = g._new("if", s.test, s)
            connect(preds, n)
            pv = prune(s.test) if prune else None
            outs = []
            if pv is not False:
                outs += seq(s.body, [(n, "T")], loop, handlers)
            if pv is not True:
                if s.orelse:
                    outs += seq(s.orelse, [(n, "F")], loop, handlers)
                else:
                    outs += [(n, "F")]
            return outs
        if isinstance(s, (ast.For, ast.AsyncFor)):
            n = g._new("for", s.iter, s)
            connect(preds, n)
            brk = []
            lp = dict(head=n, breaks=brk)
            body_out = seq(s.body, [(n, "iter")], lp, handlers)
            connect(body_out, n)
            outs = seq(s.orelse, [(n, "done")], loop, handlers) if s.orelse else [(n, "done")]
            return outs + brk
        if isinstance(s, ast.While):
            n = g._new("while", s.test, s)
            connect(preds, n)
            brk = []
            lp = dict(head=n, breaks=brk)
            const_true = isinstance(s.test, ast.Constant) and bool(s.test.value)
            pv = True if const_true else (prune(s.test) if prune else None)
            body_out = seq(s.body, [(n, "T")], lp, handlers) if pv is not False else []
            connect(body_out, n)
            outs = []
            if pv is not True:
                outs = seq(s.orelse, [(n, "F")], loop, handlers) if s.orelse else [(n, "F")]
            return outs + brk
        if isinstance(s, (ast.With, ast.AsyncWith)):
            n = g._new("with", s, s)
            connect(preds, n)
            return seq(s.body, [(n, "")], loop, handlers)
        if isinstance(s, ast.Try):
            n = g._new("try", s, s)
            connect(preds, n)
            hheads = []
            for h in s.handlers:
                hn = g._new("stmt", h, h)  # handler entry marker
                hheads.append(hn)
            inner_handlers = hheads + (handlers if not _catches_all(s) else [])
            # body: every node created inside may jump to the handlers
            before = g._n
            body_out = seq(s.body, [(n, "")], loop, inner_handlers)
            for i in range(before, g._n):
                if g.nodes[i].kind not in ("entry", "exit", "raiseexit"):
                    for hn in hheads:
                        g.edge(i, hn, "exc")
            g.edge(n, hheads[0], "exc") if hheads else None
            outs = seq(s.orelse, body_out, loop, handlers) if s.orelse else body_out
            for h, hn in zip(s.handlers, hheads):
                outs = outs + seq(h.body, [(hn, "")], loop, handlers)
            if s.finalbody:
                outs = seq(s.finalbody, outs, loop, handlers)
            return outs
        if isinstance(s, ast.Return):
            n = g._new("return", s, s)
            connect(preds, n)
            g.edge(n, g.exit)
            return []
        if isinstance(s, ast.Raise):
            n = g._new("raise", s, s)
            connect(preds, n)
            raise_targets(n, handlers)
            return []
        if isinstance(s, ast.Break):
            n = g._new("break", s, s)
            connect(preds, n)
            if loop is not None:
                loop["breaks"].append((n, "break"))
            return []
        if isinstance(s, ast.Continue):
            n = g._new("continue", s, s)
            connect(preds, n)
            if loop is not None:
                g.edge(n, loop["head"], "continue")
            return []
        if isinstance(s, ast.Match):
            n = g._new("stmt", s, s)
            connect(preds, n)
            outs = [(n, "nomatch")]
            for c in s.cases:
                outs += seq(c.body, [(n, "case")], loop, handlers)
            return outs
        n = g._new("stmt", s, s)
        connect(preds, n)
        return [(n, "")]

    outs = seq(body, [(g.entry, "")], None, [])
    for p, lab in outs:
        g.edge(p, g.exit, lab)
    return g


def _catches_all(t: ast.Try) -> bool:
    for h in t.handlers:
        if h.type is None:
            return True
        names = [h.type] if not isinstance(h.type, ast.Tuple) else h.type.elts
        for nm in names:
            if isinstance(nm, ast.Name) and nm.id in ("Exception", "BaseException"):
                return True
    return False


# --------------------------------------------------------------------------
# guard discovery
# --------------------------------------------------------------------------


class Guard:
    """A `raise` (or other terminating statement) together with the chain of
    enclosing conditions inside one function."""

    def __init__(self, raise_stmt, chain, outer):
        self.stmt = raise_stmt
        self.chain = chain  # list of (kind, node, polarity) from outermost to innermost
        self.outer = outer  # outermost enclosing compound statement (or the raise itself)

    def tests(self):
        return [(n.test, pol) for kind, n, pol in self.chain if kind in ("if", "while")]

    def iters(self):
        return [n for kind, n, pol in self.chain if kind == "for"]

    def text(self):
        return " / ".join(
            ("%s%s" % ("" if pol else "not ", ast.unparse(n.test)) if kind in ("if", "while") else "for %s in %s" % (
                ast.unparse(n.target), ast.unparse(n.iter))) if kind in ("if", "while", "for") else kind
            for kind, n, pol in self.chain)


def find_guards(fn, kinds=(ast.Raise,)) -> List[Guard]:
    """All statements of the given kinds in fn (not in nested defs) with their
    enclosing condition chains."""
    out = []

    def rec(stmts, chain):
        for s in stmts:
            if isinstance(s, kinds):
                out.append(Guard(s, list(chain), chain[0][1] if chain else s))
            if isinstance(s, ast.If):
                rec(s.body, chain + [("if", s, True)])
                rec(s.orelse, chain + [("if", s, False)])
            elif isinstance(s, (ast.For, ast.AsyncFor)):
                rec(s.body, chain + [("for", s, True)])
                rec(s.orelse, chain + [("forelse", s, True)])
            elif isinstance(s, ast.While):
                rec(s.body, chain + [("while", s, True)])
                rec(s.orelse, chain + [("whileelse", s, True)])
            elif isinstance(s, (ast.With, ast.AsyncWith)):
                rec(s.body, chain + [("with", s, True)])
            elif isinstance(s, ast.Try):
                rec(s.body, chain + [("try", s, True)])
                for h in s.handlers:
                    rec(h.body, chain + [("except", h, True)])
                rec(s.orelse, chain + [("tryelse", s, True)])
                rec(s.finalbody, chain + [("finally", s, True)])

    rec(fn.body, [])
    return out


def assigned_names(stmt) -> Set[str]:
    out = set()
    for n in ast.walk(stmt):
        if isinstance(n, ast.Name) and isinstance(n.ctx, ast.Store):
            out.add(n.id)
        elif isinstance(n, ast.AugAssign) and isinstance(n.target, ast.Name):
            out.add(n.target.id)
    return out


def defs_of(g: CFG, name: str) -> List[int]:
    """CFG nodes that (re)bind `name` (simple statements and for-heads)."""
    out = []
    for i, n in g.nodes.items():
        if n.kind == "stmt" and isinstance(n.stmt, (ast.Assign, ast.AugAssign, ast.AnnAssign)):
            tg = n.stmt.targets if isinstance(n.stmt, ast.Assign) else [n.stmt.target]
            for t in tg:
                for x in ast.walk(t):
                    if isinstance(x, ast.Name) and x.id == name and isinstance(x.ctx, ast.Store):
                        out.append(i)
        elif n.kind == "for":
            for x in ast.walk(n.stmt.target):
                if isinstance(x, ast.Name) and x.id == name:
                    out.append(i)
    return sorted(set(out))
