"""E0 -- repository model, anchors, rule context, evidence, known findings.

The repository is modelled as a mapping  relative path -> source text  read
from SA_REPO (default /repo) at the moment of the run.  A `Repo` can be cloned
with in-memory edits (`with_edit`), which is how the self-test applies mutants
and twins without touching the disk.
"""
from __future__ import annotations

import ast
import hashlib
import json
import os
import sys
import time
from dataclasses import dataclass, field
from typing import Callable, Dict, List, Optional

VERIF = os.path.dirname(os.path.dirname(os.path.abspath(__file__)))
REPO_ROOT = os.environ.get("SA_REPO", "/repo")
EVIDENCE_DIR = os.path.join(VERIF, "evidence")
REPLAY_DIR = os.path.join(EVIDENCE_DIR, "replay")
KNOWN_FINDINGS = os.path.join(VERIF, "known_findings.json")


class AnalysisError(Exception):
    """The analyser cannot decide (anchor vanished, floor not met, internal
    error).  Exit code 2, never a VIOLATION and never a pass."""


class LocusAbsent(Exception):
    """A scripted self-test edit does not apply to the current tree."""


# --------------------------------------------------------------------------
# repository model
# --------------------------------------------------------------------------


def _is_test_path(rel: str) -> bool:
    parts = rel.split("/")
    return "tests" in parts or parts[-1].startswith("test_") or parts[-1] == "conftest.py"


class Module:
    def __init__(self, rel: str, source: str):
        self.rel = rel
        self.source = source
        try:
            self.tree = ast.parse(source, filename=rel)
        except SyntaxError as e:  # the tree must at least compile
            raise AnalysisError("cannot parse %s: %s" % (rel, e))
        from .canon import canonicalise
        self.renamed = canonicalise(self.tree, rel)  # local names back to the reference spelling
        self.equiv = {}
        if not os.environ.get("SA_NO_REFEQ"):
            from .refeq import substitute
            try:
                self.equiv = substitute(self.tree, rel)  # functions proven equivalent to their reference version are replaced by it
            except RecursionError:
                self.equiv = {}
        self.name = rel[:-3].replace("/", ".")
        if self.name.endswith(".__init__"):
            self.name = self.name[: -len(".__init__")]
        self.functions: Dict[str, ast.AST] = {}
        self.classes: Dict[str, ast.ClassDef] = {}
        self.assigns: Dict[str, List[ast.AST]] = {}
        self.imports: Dict[str, tuple] = {}
        self._index(self.tree, "")
        for node in self.tree.body:
            self._index_assign(node)
        for node in ast.walk(self.tree):
            if isinstance(node, ast.Import):
                for a in node.names:
                    self.imports[a.asname or a.name.split(".")[0]] = (a.name, None)
            elif isinstance(node, ast.ImportFrom):
                for a in node.names:
                    self.imports[a.asname or a.name] = ("." * node.level + (node.module or ""), a.name)

    def _index(self, node, prefix):
        for child in ast.iter_child_nodes(node):
            if isinstance(child, (ast.FunctionDef, ast.AsyncFunctionDef)):
                q = prefix + child.name
                # property setters etc. share a name: keep the first (getter)
                self.functions.setdefault(q, child)
                self._index(child, q + ".")
            elif isinstance(child, ast.ClassDef):
                q = prefix + child.name
                self.classes.setdefault(q, child)
                self._index(child, q + ".")
            elif isinstance(child, (ast.If, ast.Try, ast.With, ast.For, ast.While)):
                self._index(child, prefix)

    def _index_assign(self, node):
        if isinstance(node, ast.Assign):
            for t in node.targets:
                if isinstance(t, ast.Name):
                    self.assigns.setdefault(t.id, []).append(node.value)
        elif isinstance(node, ast.AnnAssign) and isinstance(node.target, ast.Name) and node.value:
            self.assigns.setdefault(node.target.id, []).append(node.value)

    def func(self, qual: str):
        try:
            return self.functions[qual]
        except KeyError:
            raise AnalysisError("anchor vanished: %s:%s" % (self.rel, qual))

    def has_func(self, qual: str) -> bool:
        return qual in self.functions

    def cls(self, qual: str) -> ast.ClassDef:
        try:
            return self.classes[qual]
        except KeyError:
            raise AnalysisError("anchor vanished: class %s:%s" % (self.rel, qual))

    def assign(self, name: str):
        """The single module-level assignment to `name`."""
        vals = self.assigns.get(name)
        if not vals:
            raise AnalysisError("anchor vanished: module-level %s in %s" % (name, self.rel))
        return vals[-1]

    def class_assign(self, cls: str, name: str):
        c = self.cls(cls)
        found = None
        for node in c.body:
            if isinstance(node, ast.Assign):
                for t in node.targets:
                    if isinstance(t, ast.Name) and t.id == name:
                        found = node.value
        if found is None:
            raise AnalysisError("anchor vanished: %s.%s in %s" % (cls, name, self.rel))
        return found

    def class_assign_opt(self, cls: str, name: str):
        try:
            return self.class_assign(cls, name)
        except AnalysisError:
            return None

    def segment(self, node) -> str:
        return ast.get_source_segment(self.source, node) or ""


class Repo:
    def __init__(self, root: str = None, overrides: Optional[Dict[str, str]] = None):
        self.root = root or REPO_ROOT
        self.overrides = dict(overrides or {})
        self._mods: Dict[str, Module] = {}
        self._files: Optional[List[str]] = None

    # -- files
    def files(self) -> List[str]:
        if self._files is None:
            out = []
            base = os.path.join(self.root, "chempy")
            if not os.path.isdir(base):
                raise AnalysisError("no chempy package under %s" % self.root)
            for dp, dns, fns in os.walk(base):
                dns[:] = [d for d in dns if d != "__pycache__"]
                for fn in fns:
                    if fn.endswith(".py"):
                        rel = os.path.relpath(os.path.join(dp, fn), self.root)
                        if not _is_test_path(rel):
                            out.append(rel)
            self._files = sorted(out)
        return self._files

    def source(self, rel: str) -> str:
        if rel in self.overrides:
            return self.overrides[rel]
        path = os.path.join(self.root, rel)
        if not os.path.isfile(path):
            raise AnalysisError("anchor vanished: file %s" % rel)
        with open(path, encoding="utf-8") as fh:
            return fh.read()

    def mod(self, rel: str) -> Module:
        if rel not in self._mods:
            self._mods[rel] = Module(rel, self.source(rel))
        return self._mods[rel]

    def has(self, rel: str) -> bool:
        return rel in self.overrides or os.path.isfile(os.path.join(self.root, rel))

    def all_modules(self) -> List[Module]:
        return [self.mod(f) for f in self.files()]

    def digest(self, rels=None) -> str:
        h = hashlib.sha256()
        for rel in sorted(rels or self.files()):
            h.update(rel.encode())
            h.update(self.source(rel).encode())
        return h.hexdigest()[:16]

    # -- in-memory edits for the self-test
    def with_edit(self, rel: str, old: str, new: str, count: int = 1) -> "Repo":
        src = self.source(rel)
        n = src.count(old)
        if n == 0 or (count and n != count):
            raise LocusAbsent("%s: %r occurs %d times (need %s)" % (rel, old[:60], n, count))
        ov = dict(self.overrides)
        ov[rel] = src.replace(old, new)
        r = Repo(self.root, ov)
        # the edited tree must still compile
        try:
            compile(ov[rel], rel, "exec")
        except SyntaxError as e:
            raise AnalysisError("self-test edit does not compile: %s %s" % (rel, e))
        return r

    def with_edits(self, edits) -> "Repo":
        r = self
        for e in edits:
            r = r.with_edit(*e)
        return r


# --------------------------------------------------------------------------
# rule context
# --------------------------------------------------------------------------


@dataclass
class Instance:
    rule: str
    anchor: str
    key: str
    status: str  # holds | violation
    msg: str = ""
    file: str = ""
    line: int = 0
    facts: dict = field(default_factory=dict)

    def ident(self):
        return (self.rule, self.anchor, self.key)

    def as_dict(self):
        d = dict(rule=self.rule, anchor=self.anchor, key=self.key, status=self.status)
        if self.msg:
            d["msg"] = self.msg
        if self.file:
            d["where"] = "%s:%d" % (self.file, self.line)
        if self.facts:
            d["facts"] = self.facts
        return d


def _jsonable(x):
    if isinstance(x, (str, int, float, bool)) or x is None:
        return x
    if isinstance(x, dict):
        return {str(k): _jsonable(v) for k, v in x.items()}
    if isinstance(x, (list, tuple, set, frozenset)):
        return [_jsonable(v) for v in (sorted(x, key=str) if isinstance(x, (set, frozenset)) else x)]
    if isinstance(x, ast.AST):
        return ast.unparse(x)
    return str(x)


class Ctx:
    def __init__(self, repo: Repo, prop: str, tier: str = "quick"):
        self.repo = repo
        self.prop = prop
        self.tier = tier
        self.instances: List[Instance] = []
        self.notes: List[str] = []
        self.tops: List[str] = []
        self.functions_seen: set = set()
        self.files_seen: set = set()
        self.modes_seen: set = set()
        self.rule = None  # current rule id

    # anchors -------------------------------------------------------------
    def mod(self, rel) -> Module:
        self.files_seen.add(rel)
        return self.repo.mod(rel)

    def func(self, rel, qual):
        self.files_seen.add(rel)
        self.functions_seen.add("%s:%s" % (rel, qual))
        return self.repo.mod(rel).func(qual)

    # verdicts ------------------------------------------------------------
    def _where(self, anchor, node):
        rel = anchor.split(":")[0]
        line = getattr(node, "lineno", 0) if node is not None else 0
        return rel, line

    def holds(self, anchor: str, key: str, rule: str = None, **facts):
        self.instances.append(
            Instance(rule or self.rule, anchor, key, "holds", facts=_jsonable(facts))
        )

    def violation(self, anchor: str, key: str, msg: str, node=None, rule: str = None, **facts):
        rel, line = self._where(anchor, node)
        self.instances.append(
            Instance(rule or self.rule, anchor, key, "violation", msg, rel, line, _jsonable(facts))
        )

    def check(self, cond, anchor: str, key: str, msg: str, node=None, rule: str = None, **facts):
        if cond:
            self.holds(anchor, key, rule=rule, **facts)
        else:
            self.violation(anchor, key, msg, node=node, rule=rule, **facts)
        return bool(cond)

    def note(self, msg: str):
        self.notes.append(msg)

    def top(self, what: str):
        if what not in self.tops:
            self.tops.append(what)

    # results -------------------------------------------------------------
    def violations(self) -> List[Instance]:
        return [i for i in self.instances if i.status == "violation"]

    def count(self, rule: str) -> int:
        return sum(1 for i in self.instances if i.rule == rule)


@dataclass
class Rule:
    id: str
    fn: Callable
    floor: int
    doc: str
    tier: str = "quick"  # 'thorough' rules run only in the thorough tier


@dataclass
class Mutant:
    name: str
    edits: list  # [(rel, old, new)] or [(rel, old, new, count)]
    rule: str  # rule expected to fire
    where: str = ""  # substring expected in anchor/key/msg of a violation
    tier: str = "quick"


@dataclass
class Twin:
    name: str
    edits: list
    tier: str = "quick"


# --------------------------------------------------------------------------
# known findings
# --------------------------------------------------------------------------


def load_known_findings() -> list:
    if not os.path.isfile(KNOWN_FINDINGS):
        return []
    with open(KNOWN_FINDINGS) as fh:
        data = json.load(fh)
    return data.get("findings", [])


def known_index(prop: str) -> dict:
    idx = {}
    for f in load_known_findings():
        if f.get("property") == prop and f.get("status") == "known":
            idx[(f["rule"], f["anchor"], f["key"])] = f
    return idx


# --------------------------------------------------------------------------
# running a property
# --------------------------------------------------------------------------


def run_rules(repo: Repo, propmod, tier: str, only_rule: str = None) -> Ctx:
    """Run the rules of one property module on `repo`.  Raises AnalysisError
    when a rule cannot decide."""
    ctx = Ctx(repo, propmod.ID, tier)
    for rule in propmod.RULES:
        if only_rule and rule.id != only_rule:
            continue
        if rule.tier == "thorough" and tier != "thorough":
            continue
        ctx.rule = rule.id
        before = len(ctx.instances)
        try:
            rule.fn(ctx)
        except AnalysisError as e:
            if any(i.status == "violation" for i in ctx.instances):
                # the violation already names a construct; the rest of this rule is undecided
                ctx.note("%s: analysis stopped after the reported violation(s): %s" % (rule.id, str(e).splitlines()[0]))
                continue
            # an undecided rule ends the run (exit 2): the rules after it were written for the shapes this one could not recognise, and running
            # them on would turn "cannot decide" into reports about code that may be perfectly right
            raise
        except RecursionError as e:
            raise AnalysisError("%s: recursion limit in analyser (%s)" % (rule.id, e))
        except Exception as e:  # an analyser crash is never a verdict
            import traceback

            tb = traceback.format_exc(limit=6)
            raise AnalysisError("%s: analyser raised %s: %s\n%s" % (rule.id, type(e).__name__, e, tb))
        n = len(ctx.instances) - before
        has_violation = any(i.status == "violation" for i in ctx.instances)  # the run reports a violation anyway
        if n < rule.floor and not has_violation:  # a reported violation legitimately short-circuits later instances
            raise AnalysisError(
                "%s: only %d rule instances examined, floor is %d (rule would pass vacuously)"
                % (rule.id, n, rule.floor)
            )
    ctx.rule = None
    return ctx


def _reference_commit():
    try:
        with open(os.path.join(os.path.dirname(os.path.dirname(os.path.abspath(__file__))), "reference", "COMMIT")) as fh:
            return fh.read().strip()
    except OSError:
        return None


def write_evidence(propmod, ctx: Ctx, tier: str, seed: int, wall: float, n_viol: int,
                   known_hit: list, selftest: Optional[dict], error: Optional[str] = None):
    if os.environ.get("SA_NO_EVIDENCE"):  # scratch runs against another tree (SA_REPO) must not touch the evidence
        return None
    os.makedirs(EVIDENCE_DIR, exist_ok=True)
    insts = ctx.instances if ctx else []
    per_rule = {}
    for i in insts:
        d = per_rule.setdefault(i.rule, dict(instances=0, holds=0, violations=0))
        d["instances"] += 1
        d["holds" if i.status == "holds" else "violations"] += 1
    distinct = len({i.ident() for i in insts})
    samples = [i.as_dict() for i in insts if i.status == "violation"][:10]
    seen_rules = set()
    for i in insts:  # one sample per rule, then fill up
        if i.rule not in seen_rules and i.status == "holds":
            seen_rules.add(i.rule)
            samples.append(i.as_dict())
    rules_doc = {r.id: r.doc for r in propmod.RULES}
    cov = dict(
        explanation=(
            "Static analysis of /repo/chempy source (ast + rule-specific abstract "
            "interpretation); no repo code is imported or run. Obligations are rule "
            "instances (one per construct/mode examined). " + propmod.CLAIM
        ),
        rule="rule instances enumerated from the syntax tree of the anchored functions; "
             "distinct = distinct (rule, anchor, key) triples; every instance inspects a real construct",
        obligations=len(insts),
        discharged=sum(1 for i in insts if i.status == "holds"),
        evaluations=len(insts),
        distinct_nontrivial=distinct,
        exhaustive=True,
        samples=samples if samples else [dict(note="no instance (analysis error)")],
        rules=rules_doc,
        per_rule=per_rule,
        files=sorted(ctx.files_seen) if ctx else [],
        functions=sorted(ctx.functions_seen) if ctx else [],
        modes=sorted(ctx.modes_seen) if ctx else [],
        tops=(ctx.tops if ctx else [])[:200],
        notes=(ctx.notes if ctx else [])[:200],
        known_findings_matched=known_hit,
        does_not_decide=propmod.DOES_NOT_DECIDE,
        repo_digest=ctx.repo.digest(sorted(ctx.files_seen)) if ctx and ctx.files_seen else None,
    )
    if ctx:
        # reference equivalence (sa/refeq.py): which consulted functions differ textually from the reference tree, and with what verdict
        req = {}
        for rel in sorted(ctx.files_seen):
            m = ctx.repo._mods.get(rel)
            for q, st in (getattr(m, "equiv", {}) or {}).items():
                if st != "identical":
                    req["%s:%s" % (rel, q)] = st
        cov["reference_equivalence"] = dict(
            rule="functions of the consulted files that are not textually identical to /verif/reference: 'equivalent' = same normal form (sa/nf.py), the rules were "
                 "given the reference function; 'different'/'new' = analysed as they are",
            reference_commit=_reference_commit(), non_identical=req)
    if selftest is not None:
        cov["selftest"] = selftest
    if error:
        cov["analysis_error"] = error
    ev = dict(
        property_id=propmod.ID,
        tier=tier,
        seed=seed,
        level="other",
        coverage=cov,
        assumptions=list(propmod.ASSUMPTIONS) + [
            "the rules hold on the reference tree /verif/reference (commit in reference/COMMIT), where every one of them was confirmed",
            "reference equivalence (sa/nf.py), used only for functions that differ textually from the reference: expressions other than calls of mutating methods "
            "have no order-dependent side effects and do not raise (outside a try body with handlers, where every evaluation is kept in place); `*` commutes; "
            "real-number algebra; an unused pure binding may be dropped; message texts of raise/warn are not behaviour; generator expressions are consumed where written"],
        wall_s=round(wall, 3),
        violations=n_viol,
    )
    path = os.path.join(EVIDENCE_DIR, "%s.json" % propmod.ID)
    tmp = path + ".tmp"
    with open(tmp, "w") as fh:
        json.dump(ev, fh, indent=1, sort_keys=True, ensure_ascii=False)
    os.replace(tmp, path)
    return path


def write_replay(prop: str, inst: Instance, k: int) -> str:
    os.makedirs(REPLAY_DIR, exist_ok=True)
    path = os.path.join(REPLAY_DIR, "%s-%s-%d.json" % (prop, inst.rule, k))
    with open(path, "w") as fh:
        json.dump(dict(property=prop, **inst.as_dict()), fh, indent=1, sort_keys=True, ensure_ascii=False)
    return path


def main_run(propmod, tier: str, seed: int, replay: str = None, do_selftest: bool = True) -> int:
    t0 = time.time()
    repo = Repo()
    only_rule = None
    if replay:
        with open(replay) as fh:
            rp = json.load(fh)
        only_rule = rp["rule"]
    try:
        if replay:
            ctx = run_rules(repo, propmod, "thorough", only_rule)
        else:
            ctx = run_rules(repo, propmod, tier)
    except AnalysisError as e:
        print("ANALYSIS-ERROR property=%s %s" % (propmod.ID, e))
        if not replay:
            write_evidence(propmod, None, tier, seed, time.time() - t0, 0, [], None, error=str(e))
        return 2

    known = known_index(propmod.ID)
    new_viol, known_hit = [], []
    for inst in ctx.violations():
        if inst.ident() in known:
            known_hit.append(inst)
        else:
            new_viol.append(inst)

    if replay:
        for inst in ctx.instances:
            if inst.anchor == rp["anchor"] and inst.key == rp["key"]:
                print(json.dumps(inst.as_dict(), indent=1, ensure_ascii=False))
                return 1 if inst.status == "violation" else 0
        print("instance no longer present")
        return 0

    # replay files are rewritten per run
    if os.path.isdir(REPLAY_DIR):
        for fn in os.listdir(REPLAY_DIR):
            if fn.startswith(propmod.ID + "-"):
                try:
                    os.unlink(os.path.join(REPLAY_DIR, fn))
                except OSError:
                    pass   # a concurrent run of the same property on another tree removed it

    for inst in known_hit:
        f = known[inst.ident()]
        print("KNOWN-FINDING: property=%s %s [%s %s %s]" % (
            propmod.ID, f.get("what", inst.msg), inst.rule, inst.anchor, inst.key))
    for k, inst in enumerate(new_viol):
        path = write_replay(propmod.ID, inst, k)
        print("%s:%d %s -- %s [%s] -- %s" % (inst.file, inst.line, inst.anchor, inst.rule, inst.key, inst.msg))
        print("VIOLATION property=%s replay=%s" % (propmod.ID, path))

    selftest = None
    st_broken = False
    if tier == "thorough" and do_selftest:
        from . import selftest as st

        selftest = st.run_selftest(repo, propmod, ctx)
        st_broken = bool(selftest["missed"] or selftest["twin_alarms"] or selftest["errors"])
        for line in selftest["report"]:
            print(line)

    for n in ctx.notes:
        print("NOTE: " + n)

    per_rule = {}
    for i in ctx.instances:
        per_rule[i.rule] = per_rule.get(i.rule, 0) + 1
    print("%s tier=%s: %d rule instances over %d functions in %d files; %d hold, %d violation(s) (%d known)  [%s]" % (
        propmod.ID, tier, len(ctx.instances), len(ctx.functions_seen), len(ctx.files_seen),
        sum(1 for i in ctx.instances if i.status == "holds"), len(ctx.violations()), len(known_hit),
        " ".join("%s=%d" % kv for kv in sorted(per_rule.items()))))

    write_evidence(propmod, ctx, tier, seed, time.time() - t0, len(new_viol),
                   [i.as_dict() for i in known_hit], selftest)
    if new_viol:
        return 1
    if st_broken:
        print("ANALYSIS-ERROR property=%s checker self-test failed (missed mutants: %s; twin alarms: %s; errors: %s)" % (
            propmod.ID, selftest["missed"], selftest["twin_alarms"], selftest["errors"]))
        return 2
    return 0
