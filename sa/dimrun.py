"""Driving the E2 interpreter over repository functions: module environments,
cross-module resolution of in-repo callees, mode construction."""
from __future__ import annotations

import ast
from typing import Dict, Optional

from .astu import fold_module_tables
from .core import AnalysisError
from .dims import V, TOP, Interp, num, units_ns, constants_ns, Namespace


def module_env(repo, rel) -> Dict[str, V]:
    cache = repo.__dict__.setdefault("_dimrun_env", {})   # per Repo object (an id()-keyed global would be reused by a later Repo at the same address)
    if rel in cache:
        return cache[rel]
    m = repo.mod(rel)
    env: Dict[str, V] = {}
    for k, v in fold_module_tables(m.tree).items():
        if isinstance(v, bool):
            env[k] = V("bool", val=v)
        elif isinstance(v, (int, float)):
            env[k] = num(v)
        elif isinstance(v, dict) and v and all(isinstance(x, (int, float)) and not isinstance(x, bool) for x in v.values()):
            env[k] = V("mapping", extra=(V("str"), V("q", dim={}, unit={}, val=None)))
        elif isinstance(v, (tuple, list)) and v and all(isinstance(x, (int, float)) and not isinstance(x, bool) for x in v):
            env[k] = V("tuple", items=[num(x) for x in v])
    for node in m.tree.body:  # numeric arrays: np.array(<literal numbers>)
        if isinstance(node, ast.Assign) and isinstance(node.targets[0], ast.Name) and isinstance(node.value, ast.Call) \
                and isinstance(node.value.func, ast.Attribute) and node.value.func.attr in ("array", "asarray") and node.value.args:
            try:
                from .astu import fold, NotLiteral
                lit = fold(node.value.args[0], {})
            except Exception:
                continue

            def _allnum(x):
                if isinstance(x, (list, tuple)):
                    return all(_allnum(y) for y in x)
                return isinstance(x, (int, float)) and not isinstance(x, bool)
            if _allnum(lit):
                env[node.targets[0].id] = V("q", dim={}, unit={}, val=None)
    for name, (modname, attr) in m.imports.items():
        if name in env:
            continue
        base = (attr or modname).split(".")[-1] if attr else modname.split(".")[0]
        if attr is None and modname in ("math", "numpy", "sympy"):
            env[name] = V("be", name=modname)
        elif attr is None and modname == "numpy" or name == "np":
            env[name] = V("be", name="numpy")
        else:
            env.setdefault(name, V("imported", name="%s:%s" % (modname, attr)))
    cache[rel] = env
    return env


def _resolve_module(repo, cur_rel, modname) -> Optional[str]:
    """relative/absolute module name -> repo relative path"""
    if modname.startswith("."):
        level = len(modname) - len(modname.lstrip("."))
        parts = cur_rel.split("/")[:-1]
        parts = parts[: len(parts) - (level - 1)] if level > 1 else parts
        rest = modname.lstrip(".")
        path = "/".join(parts + (rest.split(".") if rest else []))
    else:
        path = modname.replace(".", "/")
    for cand in (path + ".py", path + "/__init__.py"):
        if repo.has(cand):
            return cand
    return None


def make_resolver(repo, rel):
    m = repo.mod(rel)

    def resolve(name):
        if name is None:
            return None
        if name in m.functions and "." not in name:
            return m.functions[name], module_env(repo, rel)
        if name in m.imports:
            modname, attr = m.imports[name]
            if attr is None:
                return None
            target = _resolve_module(repo, rel, modname)
            hops = 0
            while target is not None and hops < 3:
                tm = repo.mod(target)
                if attr in tm.functions:
                    if attr == "get_backend":
                        return None
                    return tm.functions[attr], module_env(repo, target)
                if attr in tm.imports and tm.imports[attr][1]:
                    modname2, attr2 = tm.imports[attr]
                    target = _resolve_module(repo, target, modname2)
                    attr = attr2
                    hops += 1
                else:
                    return None
        return None
    return resolve


def run(repo, rel, qual, params, hooks=None, units_extras=None, fn=None) -> Interp:
    m = repo.mod(rel)
    f = fn if fn is not None else m.func(qual)
    it = Interp(f, params, module_env(repo, rel), make_resolver(repo, rel), hooks=hooks or {}, units_extras=units_extras)
    it.run()
    return it
