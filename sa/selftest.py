"""Checker self-test: in-memory mutants (must fire, naming the construct) and
twins (behaviour-preserving rewrites that must stay silent).  DESIGN.md 2.5."""
from __future__ import annotations

import os
from concurrent.futures import ProcessPoolExecutor

from .core import AnalysisError, LocusAbsent, Repo, run_rules


def _norm_edits(edits):
    out = []
    for e in edits:
        e = tuple(e)
        if len(e) == 3:
            e = e + (1,)
        out.append(e)
    return out


def _viol_set(ctx):
    return {(i.rule, i.anchor, i.key) for i in ctx.violations()}


def _one(args):
    kind, prop_id, name, edits, rule, where, root, base_viol, tier = args
    from . import props

    propmod = props.load(prop_id)
    repo = Repo(root)
    try:
        mrepo = repo.with_edits(_norm_edits(edits))
    except LocusAbsent as e:
        return (kind, name, "skipped", "locus absent: %s" % e)
    except AnalysisError as e:
        return (kind, name, "error", str(e))
    try:
        ctx = run_rules(mrepo, propmod, tier)
    except AnalysisError as e:
        if kind == "mutant":
            # an edit that removes the anchor altogether is reported as
            # analysis-broken by the real run: counted as detected (fail closed)
            return (kind, name, "caught-as-analysis-error", str(e).splitlines()[0])
        return (kind, name, "error", "twin made the analyser undecided: %s" % str(e).splitlines()[0])
    new = [i for i in ctx.violations() if (i.rule, i.anchor, i.key) not in base_viol]
    if kind == "mutant":
        hits = [i for i in new if i.rule == rule and (not where or where in i.anchor or where in i.key or where in i.msg)]
        if hits:
            return (kind, name, "caught", "%s %s [%s]" % (hits[0].rule, hits[0].anchor, hits[0].key))
        if new:
            return (kind, name, "missed", "fired %s instead of %s/%s" % (
                sorted({(i.rule, i.anchor) for i in new})[:3], rule, where))
        return (kind, name, "missed", "no rule fired (expected %s)" % rule)
    else:
        if new:
            return (kind, name, "alarm", "; ".join("%s %s [%s] %s" % (i.rule, i.anchor, i.key, i.msg) for i in new[:3]))
        return (kind, name, "silent", "")


import ast


def _rename_source(src: str, fn: ast.AST, suffix="_rn"):
    """Source with every local variable of `fn` renamed (behaviour preserving), or None if unsafe."""
    args = {a.arg for a in ast.walk(fn) if isinstance(a, ast.arg)}
    banned = set(args)
    for n in ast.walk(fn):
        if isinstance(n, (ast.Global, ast.Nonlocal)):
            banned.update(n.names)
        if isinstance(n, ast.Call) and isinstance(n.func, ast.Name) and n.func.id in ("locals", "vars", "eval", "exec"):
            return None
        if isinstance(n, (ast.FunctionDef, ast.AsyncFunctionDef, ast.ClassDef)) and n is not fn:
            banned.add(n.name)
        if isinstance(n, (ast.Import, ast.ImportFrom)):
            for a in n.names:
                banned.add((a.asname or a.name).split(".")[0])
    locs = {n.id for n in ast.walk(fn) if isinstance(n, ast.Name) and isinstance(n.ctx, ast.Store)} - banned
    if not locs:
        return None
    import copy
    fn2 = copy.deepcopy(fn)
    for n in ast.walk(fn2):
        if isinstance(n, ast.Name) and n.id in locs:
            n.id = n.id + suffix
    new = ast.unparse(fn2)
    lines = src.splitlines(keepends=True)
    start = min([fn.lineno] + [d.lineno for d in fn.decorator_list]) - 1
    end = fn.end_lineno
    indent = " " * fn.col_offset
    body = "".join(indent + ln + "\n" if ln.strip() else "\n" for ln in new.splitlines())
    return "".join(lines[:start]) + body + "".join(lines[end:])


def _rename_one(args):
    prop_id, rel, qual, root, base_viol = args
    from . import props
    propmod = props.load(prop_id)
    repo = Repo(root)
    try:
        m = repo.mod(rel)
        fn = m.functions.get(qual)
        if fn is None or not isinstance(fn, (ast.FunctionDef, ast.AsyncFunctionDef)):
            return ("rename", "%s:%s" % (rel, qual), "skipped", "not a function")
        new = _rename_source(m.source, fn)
        if new is None:
            return ("rename", "%s:%s" % (rel, qual), "skipped", "nothing to rename / unsafe")
        compile(new, rel, "exec")
        mrepo = Repo(root, {rel: new})
        ctx = run_rules(mrepo, propmod, "thorough")
    except AnalysisError as e:
        return ("rename", "%s:%s" % (rel, qual), "error", "renaming locals made the analyser undecided: %s" % str(e).splitlines()[0])
    except SyntaxError as e:
        return ("rename", "%s:%s" % (rel, qual), "skipped", "unparse artefact: %s" % e)
    new_v = [i for i in ctx.violations() if (i.rule, i.anchor, i.key) not in base_viol]
    if new_v:
        return ("rename", "%s:%s" % (rel, qual), "alarm", "; ".join("%s [%s] %s" % (i.rule, i.key, i.msg[:80]) for i in new_v[:3]))
    return ("rename", "%s:%s" % (rel, qual), "silent", "")


def rename_tasks(repo, propmod, base_ctx, base_viol):
    out = []
    for fq in sorted(base_ctx.functions_seen):
        rel, _, qual = fq.partition(":")
        if not rel.endswith(".py") or not qual:
            continue
        # only outermost functions: a nested function is renamed together with its parent
        parts = qual.split(".")
        try:
            m = repo.mod(rel)
        except AnalysisError:
            continue
        outer = None
        for i in range(1, len(parts) + 1):
            q = ".".join(parts[:i])
            if q in m.functions:
                outer = q
                break
        if outer is None:
            continue
        out.append((propmod.ID, rel, outer, repo.root, base_viol))
    seen = set()
    uniq = []
    for t in out:
        if t[1:3] not in seen:
            seen.add(t[1:3])
            uniq.append(t)
    return uniq


def run_selftest(repo: Repo, propmod, base_ctx, jobs: int = None) -> dict:
    base_viol = _viol_set(base_ctx)
    tasks = []
    for m in getattr(propmod, "MUTANTS", []):
        tasks.append(("mutant", propmod.ID, m.name, m.edits, m.rule, m.where, repo.root, base_viol, "thorough"))
    for t in getattr(propmod, "TWINS", []):
        tasks.append(("twin", propmod.ID, t.name, t.edits, None, None, repo.root, base_viol, "thorough"))
    results = []
    rtasks = rename_tasks(repo, propmod, base_ctx, base_viol) if not repo.overrides else []
    jobs = jobs or min(16, os.cpu_count() or 4)
    if len(tasks) + len(rtasks) > 3 and jobs > 1:
        with ProcessPoolExecutor(max_workers=jobs) as ex:
            f1 = [ex.submit(_one, t) for t in tasks]
            f2 = [ex.submit(_rename_one, t) for t in rtasks]
            results = [f.result() for f in f1] + [f.result() for f in f2]
    else:
        results = [_one(t) for t in tasks] + [_rename_one(t) for t in rtasks]
    out = dict(mutants=0, caught=0, twins=0, silent=0, skipped=[], missed=[], twin_alarms=[], errors=[], report=[], detail=[])
    for kind, name, status, info in results:
        out["detail"].append(dict(kind=kind, name=name, status=status, info=info))
        if kind == "mutant":
            out["mutants"] += 1
            if status.startswith("caught"):
                out["caught"] += 1
            elif status == "skipped":
                out["skipped"].append(name)
                out["report"].append("SELFTEST mutant %s skipped: its edit site is not in the tree (%s)" % (name, info))
            elif status == "missed":
                out["missed"].append(name)
                out["report"].append("SELFTEST mutant %s MISSED: %s" % (name, info))
            else:
                out["errors"].append(name)
                out["report"].append("SELFTEST mutant %s ERROR: %s" % (name, info))
        elif kind == "rename":
            out.setdefault("renames", 0)
            out.setdefault("renames_silent", 0)
            out["renames"] += 1
            if status == "silent":
                out["renames_silent"] += 1
            elif status == "skipped":
                out["skipped"].append("rename:" + name)
            elif status == "alarm":
                out["twin_alarms"].append("rename:" + name)
                out["report"].append("SELFTEST renaming the locals of %s raised a false alarm: %s" % (name, info))
            else:
                out["errors"].append("rename:" + name)
                out["report"].append("SELFTEST renaming the locals of %s: %s" % (name, info))
        else:
            out["twins"] += 1
            if status == "silent":
                out["silent"] += 1
            elif status == "skipped":
                out["skipped"].append(name)
            elif status == "alarm":
                out["twin_alarms"].append(name)
                out["report"].append("SELFTEST twin %s raised a false alarm: %s" % (name, info))
            else:
                out["errors"].append(name)
                out["report"].append("SELFTEST twin %s ERROR: %s" % (name, info))
    out["report"].append(
        "selftest %s: %d/%d mutants caught, %d/%d twins silent, %d/%d local-rename twins silent, %d skipped" % (
            propmod.ID, out["caught"], out["mutants"], out["silent"], out["twins"], out.get("renames_silent", 0), out.get("renames", 0), len(out["skipped"])))
    return out
