"""Checker self-test: in-memory mutants (must fire, naming the construct) and
twins (behaviour-preserving rewrites that must stay silent).  DESIGN.md 2.5."""
from __future__ import annotations

import os
from concurrent.futures import ProcessPoolExecutor

from .core import AnalysisError, LocusAbsent, Repo, run_rules


def _norm_edits(edits):
    out = []
    for e in edits:
        e = tuple(e)
        if len(e) == 3:
            e = e + (1,)
        out.append(e)
    return out


def _viol_set(ctx):
    return {(i.rule, i.anchor, i.key) for i in ctx.violations()}


def _one(args):
    kind, prop_id, name, edits, rule, where, root, base_viol, tier = args
    from . import props

    propmod = props.load(prop_id)
    repo = Repo(root)
    try:
        mrepo = repo.with_edits(_norm_edits(edits))
    except LocusAbsent as e:
        return (kind, name, "skipped", "locus absent: %s" % e)
    except AnalysisError as e:
        return (kind, name, "error", str(e))
    try:
        ctx = run_rules(mrepo, propmod, tier)
    except AnalysisError as e:
        if kind == "mutant":
            # an edit that removes the anchor altogether is reported as
            # analysis-broken by the real run: counted as detected (fail closed)
            return (kind, name, "caught-as-analysis-error", str(e).splitlines()[0])
        return (kind, name, "error", "twin made the analyser undecided: %s" % str(e).splitlines()[0])
    new = [i for i in ctx.violations() if (i.rule, i.anchor, i.key) not in base_viol]
    if kind == "mutant":
        hits = [i for i in new if i.rule == rule and (not where or where in i.anchor or where in i.key or where in i.msg)]
        if hits:
            return (kind, name, "caught", "%s %s [%s]" % (hits[0].rule, hits[0].anchor, hits[0].key))
        if new:
            return (kind, name, "missed", "fired %s instead of %s/%s" % (
                sorted({(i.rule, i.anchor) for i in new})[:3], rule, where))
        return (kind, name, "missed", "no rule fired (expected %s)" % rule)
    else:
        if new:
            return (kind, name, "alarm", "; ".join("%s %s [%s] %s" % (i.rule, i.anchor, i.key, i.msg) for i in new[:3]))
        return (kind, name, "silent", "")


def run_selftest(repo: Repo, propmod, base_ctx, jobs: int = None) -> dict:
    base_viol = _viol_set(base_ctx)
    tasks = []
    for m in getattr(propmod, "MUTANTS", []):
        tasks.append(("mutant", propmod.ID, m.name, m.edits, m.rule, m.where, repo.root, base_viol, "thorough"))
    for t in getattr(propmod, "TWINS", []):
        tasks.append(("twin", propmod.ID, t.name, t.edits, None, None, repo.root, base_viol, "thorough"))
    results = []
    jobs = jobs or min(16, os.cpu_count() or 4)
    if len(tasks) > 3 and jobs > 1:
        with ProcessPoolExecutor(max_workers=jobs) as ex:
            results = list(ex.map(_one, tasks))
    else:
        results = [_one(t) for t in tasks]
    out = dict(mutants=0, caught=0, twins=0, silent=0, skipped=[], missed=[], twin_alarms=[], errors=[], report=[], detail=[])
    for kind, name, status, info in results:
        out["detail"].append(dict(kind=kind, name=name, status=status, info=info))
        if kind == "mutant":
            out["mutants"] += 1
            if status.startswith("caught"):
                out["caught"] += 1
            elif status == "skipped":
                out["skipped"].append(name)
            elif status == "missed":
                out["missed"].append(name)
                out["report"].append("SELFTEST mutant %s MISSED: %s" % (name, info))
            else:
                out["errors"].append(name)
                out["report"].append("SELFTEST mutant %s ERROR: %s" % (name, info))
        else:
            out["twins"] += 1
            if status == "silent":
                out["silent"] += 1
            elif status == "skipped":
                out["skipped"].append(name)
            elif status == "alarm":
                out["twin_alarms"].append(name)
                out["report"].append("SELFTEST twin %s raised a false alarm: %s" % (name, info))
            else:
                out["errors"].append(name)
                out["report"].append("SELFTEST twin %s ERROR: %s" % (name, info))
    out["report"].append(
        "selftest %s: %d/%d mutants caught, %d/%d twins silent, %d skipped" % (
            propmod.ID, out["caught"], out["mutants"], out["silent"], out["twins"], len(out["skipped"])))
    return out
