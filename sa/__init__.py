"""Static analysis of bjodah/chempy for the 20 fixed properties (see DESIGN.md).

Nothing in this package imports chempy or runs any of its code: every rule is
a function  (source text of /repo/chempy/**.py) -> verdict.
"""
