"""CLI:  /venv/bin/python -m sa <ID> --tier quick|thorough [--replay path]
         /venv/bin/python -m sa all --tier quick
Run from /verif.  Exit 0 holds, 1 violation, 2 analysis error."""
import argparse
import os
import sys

from . import props
from .core import main_run


def main(argv=None):
    ap = argparse.ArgumentParser(prog="sa")
    ap.add_argument("prop")
    ap.add_argument("--tier", default=os.environ.get("VERIF_TIER", "quick"), choices=["quick", "thorough"])
    ap.add_argument("--replay", default=None)
    ap.add_argument("--no-selftest", action="store_true")
    a = ap.parse_args(argv)
    try:
        seed = int(os.environ.get("VERIF_SEED", "0"))
    except ValueError:
        seed = 0
    ids = props.ALL if a.prop == "all" else [a.prop.upper()]
    rc = 0
    codes = []
    for pid in ids:
        try:
            pm = props.load(pid)
        except ImportError as e:
            print("ANALYSIS-ERROR property=%s no checker: %s" % (pid, e))
            rc = max(rc, 2)
            continue
        try:
            r = main_run(pm, a.tier, seed, replay=a.replay, do_selftest=not a.no_selftest)
        except Exception as e:  # never let a traceback look like a violation
            import traceback

            traceback.print_exc()
            print("ANALYSIS-ERROR property=%s %s: %s" % (pid, type(e).__name__, e))
            r = 2
        codes.append(r)
    if 1 in codes:
        return 1
    return max([rc] + codes)


if __name__ == "__main__":
    sys.exit(main())
