"""Recognisers for idioms the repository uses (shared by several properties)."""
from __future__ import annotations

import ast
from typing import List, Optional

from .astu import U, dotted, walk_shallow, linform, NotLinear


class Update:
    """One store into a dict-like accumulator: d[key] (=|+=|-=|*=) value."""

    def __init__(self, stmt, key, kind, value, cond=None):
        self.stmt, self.key, self.kind, self.value, self.cond = stmt, key, kind, value, cond

    def __repr__(self):
        return "<%s[%s] %s %s>" % ("d", U(self.key), self.kind, U(self.value))


def subscript_stores(stmts, dname: str) -> List[Update]:
    """All stores `dname[k] = e`, `dname[k] op= e` in stmts (recursively, not
    into nested defs).  For `d[k] = d[k] + e` / `d[k] = d.get(k, 0) + e` the
    kind is '+=' and the value is `e`."""
    out = []

    def tgt_is(t):
        return isinstance(t, ast.Subscript) and dotted(t.value) == dname

    def rec(stmts, cond):
        for s in stmts:
            if isinstance(s, ast.Assign) and len(s.targets) == 1 and tgt_is(s.targets[0]):
                t = s.targets[0]
                k = t.slice
                v = s.value
                kind = "="
                # d[k] = d[k] + e  /  d.get(k, 0) + e
                if isinstance(v, ast.BinOp) and isinstance(v.op, (ast.Add, ast.Mult)):
                    for a, b in ((v.left, v.right), (v.right, v.left)):
                        if _is_read_of(a, dname, k):
                            kind = "+=" if isinstance(v.op, ast.Add) else "*="
                            v = b
                            break
                out.append(Update(s, k, kind, v, cond))
            elif isinstance(s, ast.AugAssign) and tgt_is(s.target):
                op = {ast.Add: "+=", ast.Sub: "-=", ast.Mult: "*=", ast.Div: "/="}.get(type(s.op), "?=")
                out.append(Update(s, s.target.slice, op, s.value, cond))
            elif isinstance(s, ast.If):
                rec(s.body, (s.test, True))
                rec(s.orelse, (s.test, False))
            elif isinstance(s, (ast.For, ast.While, ast.With)):
                rec(s.body, cond)
                rec(getattr(s, "orelse", []), cond)
            elif isinstance(s, ast.Try):
                rec(s.body, cond)
                for h in s.handlers:
                    rec(h.body, cond)
                rec(s.orelse, cond)
                rec(s.finalbody, cond)

    rec(stmts, None)
    return out


def _is_read_of(node, dname, key) -> bool:
    if isinstance(node, ast.Subscript) and dotted(node.value) == dname and U(node.slice) == U(key):
        return True
    if isinstance(node, ast.Call) and isinstance(node.func, ast.Attribute) and node.func.attr == "get" \
            and dotted(node.func.value) == dname and node.args and U(node.args[0]) == U(key):
        return True
    return False


def is_not_in_test(test, key, dname) -> Optional[bool]:
    """`key not in d` -> True, `key in d` -> False, else None."""
    if isinstance(test, ast.Compare) and len(test.ops) == 1 and dotted(test.comparators[0]) == dname \
            and U(test.left) == U(key):
        if isinstance(test.ops[0], ast.NotIn):
            return True
        if isinstance(test.ops[0], ast.In):
            return False
    return None


def for_loops(fn) -> List[ast.For]:
    return [n for n in walk_shallow(fn) if isinstance(n, ast.For)]


def find_for_over(fn, pred) -> List[ast.For]:
    return [f for f in for_loops(fn) if pred(f.iter)]


def iter_is_unfiltered(node) -> bool:
    """The loop source is a plain name/attribute/call without slice/filter."""
    if isinstance(node, ast.Subscript):
        return False
    return True


def target_names(t) -> list:
    if isinstance(t, ast.Name):
        return [t.id]
    if isinstance(t, (ast.Tuple, ast.List)):
        out = []
        for e in t.elts:
            out += target_names(e)
        return out
    return []


def simple_assigns(fn, name: str) -> List[ast.AST]:
    """Values assigned to local `name` (plain Assign, incl. tuple unpack as
    ('unpack', value, index))."""
    out = []
    for n in walk_shallow(fn):
        if isinstance(n, ast.Assign):
            for t in n.targets:
                if isinstance(t, ast.Name) and t.id == name:
                    out.append(n.value)
                elif isinstance(t, (ast.Tuple, ast.List)):
                    for i, e in enumerate(t.elts):
                        if isinstance(e, ast.Name) and e.id == name:
                            if isinstance(n.value, (ast.Tuple, ast.List)) and len(n.value.elts) == len(t.elts):
                                out.append(n.value.elts[i])
                            else:
                                out.append(("unpack", n.value, i))
    return out


def raises_in(stmts) -> List[ast.Raise]:
    out = []
    for s in stmts:
        for n in [s] + list(walk_shallow(s)):
            if isinstance(n, ast.Raise):
                out.append(n)
    return out


def exc_name(r: ast.Raise) -> Optional[str]:
    if r.exc is None:
        return None
    e = r.exc.func if isinstance(r.exc, ast.Call) else r.exc
    return dotted(e)


def in_try_body(fn, node) -> bool:
    """Is `node` lexically inside the body of a try that has handlers?"""
    for t in walk_shallow(fn):
        if isinstance(t, ast.Try) and t.handlers:
            for s in t.body:
                if node is s or any(node is x for x in ast.walk(s)):
                    return True
    return False


def late_binding_closures(fn):
    """Lambdas / nested defs created inside a loop or comprehension of `fn` that read the
    iteration variable as a *free* variable (bound when called, i.e. to the last item) and are
    not called on the spot.  Returns [(closure node, variable, loop node)]."""
    out = []

    def free_names(c):
        bound = {a.arg for a in ast.walk(c.args) if isinstance(a, ast.arg)} if hasattr(c, "args") else set()
        body = [c.body] if isinstance(c, ast.Lambda) else c.body
        names = set()
        for b in body:
            for n in ast.walk(b):
                if isinstance(n, ast.Name) and isinstance(n.ctx, ast.Load):
                    names.add(n.id)
                elif isinstance(n, ast.Name) and isinstance(n.ctx, ast.Store):
                    bound.add(n.id)
        # defaults are evaluated at definition time: `lambda x, NS=NS:` binds early
        return names - bound

    def scan(node, loopvars, loopnode):
        for ch in ast.iter_child_nodes(node):
            if isinstance(ch, (ast.Lambda, ast.FunctionDef)) and loopvars:
                fv = free_names(ch) & loopvars
                # immediately-invoked closures are fine: (lambda: ...)()
                for v in sorted(fv):
                    out.append((ch, v, loopnode))
            if isinstance(ch, (ast.For, ast.AsyncFor)):
                lv = set(target_names(ch.target))
                for b in ch.body:
                    scan(b, loopvars | lv, ch)
                for b in ch.orelse:
                    scan(b, loopvars, loopnode)
                scan(ch.iter, loopvars, loopnode)
                continue
            if isinstance(ch, (ast.ListComp, ast.SetComp, ast.GeneratorExp, ast.DictComp)):
                lv = set()
                for g in ch.generators:
                    lv |= set(target_names(g.target))
                elts = [ch.elt] if not isinstance(ch, ast.DictComp) else [ch.key, ch.value]
                for e in elts:
                    if isinstance(e, (ast.Lambda,)):
                        fv = free_names(e) & (loopvars | lv)
                        for v in sorted(fv):
                            out.append((e, v, ch))
                    scan(e, loopvars | lv, ch)
                for g in ch.generators:
                    scan(g.iter, loopvars, loopnode)
                continue
            if isinstance(ch, (ast.Lambda, ast.FunctionDef)):
                # a new scope: loop variables of the enclosing loops are still free in here
                scan(ch, loopvars, loopnode)
                continue
            scan(ch, loopvars, loopnode)

    scan(fn, set(), None)
    # drop closures that are called right where they are created
    calls = {id(c.func) for c in ast.walk(fn) if isinstance(c, ast.Call)}
    return [(c, v, lp) for c, v, lp in out if id(c) not in calls]


def none_default(fn, name: str):
    """The idiom `if <name> is None: <name> = <expr>` (exactly that: one test, one assignment, no else) among
    the statements of `fn`.  Returns the <expr> node, or None when the idiom is absent or has another shape
    (inverted test, missing assignment, extra arm)."""
    for s in walk_shallow(fn):
        if isinstance(s, ast.If) and isinstance(s.test, ast.Compare) and len(s.test.ops) == 1 and isinstance(s.test.ops[0], ast.Is) \
                and isinstance(s.test.left, ast.Name) and s.test.left.id == name \
                and isinstance(s.test.comparators[0], ast.Constant) and s.test.comparators[0].value is None:
            if len(s.body) == 1 and not s.orelse and isinstance(s.body[0], ast.Assign) and len(s.body[0].targets) == 1 \
                    and isinstance(s.body[0].targets[0], ast.Name) and s.body[0].targets[0].id == name:
                return s.body[0].value
            return None
    return None


def yield_counts(stmts, _acc=0):
    """Set of possible numbers of `yield`s executed by one pass through `stmts` (paths ending in `raise` are
    dropped, `return`/`continue`/`break` end the pass).  Loops inside are not supported (returns {None})."""
    states = {_acc}
    for s in stmts:
        nxt = set()
        for st in states:
            if st is None:
                nxt.add(None)
                continue
            if isinstance(s, ast.Raise):
                continue
            if isinstance(s, (ast.Return, ast.Continue, ast.Break)):
                nxt.add(("end", st))
                continue
            if isinstance(st, tuple):
                nxt.add(st)
                continue
            if isinstance(s, ast.If):
                nxt |= yield_counts(s.body, st) | yield_counts(s.orelse, st)
            elif isinstance(s, (ast.For, ast.While, ast.Try, ast.With)):
                inner = any(isinstance(x, (ast.Yield, ast.YieldFrom)) for x in ast.walk(s))
                nxt.add(None if inner else st)
            else:
                ny = sum(1 for x in ast.walk(s) if isinstance(x, (ast.Yield, ast.YieldFrom)))
                nxt.add(st + ny)
        states = nxt
    return states


def _resolve_import(repo, mod, local):
    """(module-level function def, qualified label) for a name imported from another module of the package, else (None, None)"""
    src = mod.imports.get(local)
    if not src or src[1] is None or not src[0].startswith("."):
        return None, None
    level = len(src[0]) - len(src[0].lstrip("."))
    parts = mod.rel.split("/")[:-1]
    if level > 1:
        parts = parts[: -(level - 1)]
    tail = src[0].lstrip(".")
    base = "/".join(parts + (tail.split(".") if tail else []))
    for rel in (base + ".py", base + "/__init__.py"):
        if repo is not None and repo.has(rel):
            m2 = repo.mod(rel)
            f = m2.functions.get(src[1])
            if isinstance(f, (ast.FunctionDef, ast.AsyncFunctionDef)):
                return f, "%s:%s" % (rel, src[1])
    return None, None


def name_slot_mismatches(mod, repo=None):
    """Argument-swap detector over one module: a call that passes a bare name positionally into a parameter slot of a
    *different* name while the callee also has a parameter of that very name.  Callees are resolved within the module:
    plain functions, self.<method> (class and its bases defined in the module), super(...).<method>.
    Returns [(call, arg_name, slot_name, callee_qualname, caller_qualname)]; the number of (call, positional bare name) pairs examined is left in
    name_slot_mismatches.last_examined[0]."""
    out = []
    examined = [0]
    name_slot_mismatches.last_examined = examined
    funcs = mod.functions  # qualname -> def
    classes = {q: n for q, n in mod.classes.items()} if hasattr(mod, "classes") else {}

    def params_of(fn, drop_self):
        ps = [a.arg for a in fn.args.posonlyargs + fn.args.args]
        if drop_self and ps and ps[0] in ("self", "cls", "lhs"):
            ps = ps[1:]
        return ps

    def bases_of(cname):
        c = classes.get(cname)
        res = []
        if c is not None:
            for b in c.bases:
                bn = b.id if isinstance(b, ast.Name) else None
                if bn and bn in classes:
                    res.append(bn)
                    res += bases_of(bn)
        return res

    def lookup_method(cname, meth, skip_own=False):
        order = ([] if skip_own else [cname]) + bases_of(cname)
        for c in order:
            q = "%s.%s" % (c, meth)
            if q in funcs:
                return q, funcs[q]
        return None, None

    for qual, fn in funcs.items():
        owner = qual.split(".")[0] if "." in qual and qual.split(".")[0] in classes else None
        for c in walk_shallow(fn):
            if not isinstance(c, ast.Call) or any(isinstance(a, ast.Starred) for a in c.args):
                continue
            callee_q, callee, drop = None, None, False
            f = c.func
            if isinstance(f, ast.Name) and f.id in funcs and isinstance(funcs[f.id], (ast.FunctionDef, ast.AsyncFunctionDef)):
                callee_q, callee = f.id, funcs[f.id]
            elif isinstance(f, ast.Name) and f.id in mod.imports:
                callee, callee_q = _resolve_import(repo, mod, f.id)
            elif isinstance(f, ast.Attribute) and isinstance(f.value, ast.Name) and f.value.id in ("self", "cls") and owner:
                callee_q, callee = lookup_method(owner, f.attr)
                drop = True
            elif isinstance(f, ast.Attribute) and isinstance(f.value, ast.Call) and isinstance(f.value.func, ast.Name) and f.value.func.id == "super" and owner:
                callee_q, callee = lookup_method(owner, f.attr, skip_own=True)
                drop = True
            if callee is None:
                continue
            if any(isinstance(d, ast.Name) and d.id == "staticmethod" for d in callee.decorator_list):
                drop = False
            ps = params_of(callee, drop)
            for i, a in enumerate(c.args):
                if isinstance(a, ast.Name) and i < len(ps):
                    examined[0] += 1
                    if a.id != ps[i] and a.id in ps:
                        out.append((c, a.id, ps[i], callee_q, qual))
    return out
