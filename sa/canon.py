"""Canonical local names.

Many rules name local variables of the repository's functions (`srat`, `unit`,
`f_equil` ...).  A behaviour-preserving rename of such a local must not raise an
alarm, so before any rule runs every anchored function is alpha-renamed back to
the *reference spelling*: `ref_locals.json` records, per function, the ordered
list of names the function binds (order of first binding in source order) on the
tree the rules were written against.  On the current tree the same list is
computed and aligned with the reference (difflib); a current name that does not
occur in the reference list is mapped to the reference name at the aligned
position, provided this is a consistent bijection and the reference name is not
otherwise used in the function.  Parameters, attributes, globals and imports are
never renamed (they are interface).  Only ast.Name nodes are rewritten; line
numbers stay valid.
"""
from __future__ import annotations

import ast
import difflib
import json
import os

_TABLE = None
REF = os.path.join(os.path.dirname(os.path.abspath(__file__)), "ref_locals.json")


def table():
    global _TABLE
    if _TABLE is None:
        if os.path.isfile(REF):
            with open(REF) as fh:
                _TABLE = json.load(fh)
        else:
            _TABLE = {}
    return _TABLE


def _banned(fn):
    b = {a.arg for a in ast.walk(fn) if isinstance(a, ast.arg)}
    for n in ast.walk(fn):
        if isinstance(n, (ast.Global, ast.Nonlocal)):
            b.update(n.names)
        elif isinstance(n, (ast.FunctionDef, ast.AsyncFunctionDef, ast.ClassDef)) and n is not fn:
            b.add(n.name)
        elif isinstance(n, (ast.Import, ast.ImportFrom)):
            for a in n.names:
                b.add((a.asname or a.name).split(".")[0])
    return b


def ordered_locals(fn) -> list:
    banned = _banned(fn)
    stores = [n for n in ast.walk(fn) if isinstance(n, ast.Name) and isinstance(n.ctx, ast.Store) and n.id not in banned]
    stores.sort(key=lambda n: (n.lineno, n.col_offset))
    out = []
    for n in stores:
        if n.id not in out:
            out.append(n.id)
    return out


def outer_functions(tree):
    """(qualname, node) of functions at module or class level"""
    out = []

    def rec(node, prefix):
        for c in ast.iter_child_nodes(node):
            if isinstance(c, (ast.FunctionDef, ast.AsyncFunctionDef)):
                out.append((prefix + c.name, c))
            elif isinstance(c, ast.ClassDef):
                rec(c, prefix + c.name + ".")
            elif isinstance(c, (ast.If, ast.Try, ast.With, ast.For, ast.While)):
                rec(c, prefix)
    rec(tree, "")
    return out


def canonicalise(tree, rel) -> dict:
    """Rename locals of every outer function of `tree` to the reference spelling. Returns {qual: mapping}."""
    ref = table().get(rel)
    done = {}
    if not ref:
        return done
    for qual, fn in outer_functions(tree):
        want = ref.get(qual)
        if not want:
            continue
        cur = ordered_locals(fn)
        if cur == want:
            continue
        uses_locals = any(isinstance(n, ast.Call) and isinstance(n.func, ast.Name) and n.func.id in ("locals", "vars") for n in ast.walk(fn))
        if uses_locals:
            continue
        all_names = {n.id for n in ast.walk(fn) if isinstance(n, ast.Name)} | _banned(fn)
        mapping = {}
        sm = difflib.SequenceMatcher(a=cur, b=want, autojunk=False)
        for tag, i1, i2, j1, j2 in sm.get_opcodes():
            if tag == "replace" and (i2 - i1) == (j2 - j1):
                for c, w in zip(cur[i1:i2], want[j1:j2]):
                    if c not in want and w not in all_names and w not in mapping.values():
                        mapping[c] = w
        if not mapping:
            continue
        for n in ast.walk(fn):
            if isinstance(n, ast.Name) and n.id in mapping:
                n.id = mapping[n.id]
        done[qual] = mapping
    return done
