"""E1 -- finite-language view of a regex *syntax tree* and embedded reference
tables (IUPAC, roman numerals, CODATA, SI prefixes)."""
from __future__ import annotations

import re

try:  # 3.11+
    import re._parser as sre_parse
    import re._constants as sre_c
except ImportError:  # pragma: no cover
    import sre_parse
    import sre_constants as sre_c


class Undecided(Exception):
    pass


def parse_regex(pattern: str):
    return sre_parse.parse(pattern)


def _in_chars(items):
    chars = set()
    neg = False
    for op, av in items:
        if op is sre_c.NEGATE:
            neg = True
        elif op is sre_c.LITERAL:
            chars.add(chr(av))
        elif op is sre_c.RANGE:
            lo, hi = av
            if hi - lo > 200:
                raise Undecided("wide range")
            chars.update(chr(c) for c in range(lo, hi + 1))
        elif op is sre_c.CATEGORY:
            if av is sre_c.CATEGORY_DIGIT:
                chars.update("0123456789")
            else:
                raise Undecided("category %s" % av)
        else:
            raise Undecided("IN item %s" % op)
    if neg:
        raise Undecided("negated class")
    return chars


def match_lengths(tree, s: str, pos: int = 0):
    """Yield end positions of matches of `tree` at `pos` of `s` in the order
    Python's backtracking matcher would try them (first = the one re.match
    reports when nothing follows).  Finite fragment only."""
    items = list(tree)

    def seq(i, p):
        if i == len(items):
            yield p
            return
        op, av = items[i]
        if op is sre_c.LITERAL:
            if p < len(s) and s[p] == chr(av):
                yield from seq(i + 1, p + 1)
        elif op is sre_c.IN:
            if p < len(s) and s[p] in _in_chars(av):
                yield from seq(i + 1, p + 1)
        elif op is sre_c.BRANCH:
            for alt in av[1]:
                for e in match_lengths(alt, s, p):
                    yield from seq(i + 1, e)
        elif op is sre_c.SUBPATTERN:
            for e in match_lengths(av[3], s, p):
                yield from seq(i + 1, e)
        elif op in (sre_c.MAX_REPEAT, sre_c.MIN_REPEAT):
            lo, hi, sub = av
            if hi is sre_c.MAXREPEAT:
                hi = len(s) + 1
            # all ways to repeat k times
            def rep(k, q):
                if k == 0:
                    yield q
                    return
                for e in match_lengths(sub, s, q):
                    if e == q:
                        continue
                    yield from rep(k - 1, e)
            counts = range(hi, lo - 1, -1) if op is sre_c.MAX_REPEAT else range(lo, hi + 1)
            for k in counts:
                for e in rep(k, p):
                    yield from seq(i + 1, e)
        elif op is sre_c.AT:
            if av in (sre_c.AT_BEGINNING, sre_c.AT_BEGINNING_STRING) and p == 0:
                yield from seq(i + 1, p)
            elif av in (sre_c.AT_END, sre_c.AT_END_STRING) and p == len(s):
                yield from seq(i + 1, p)
        else:
            raise Undecided("regex op %s" % op)

    yield from seq(0, pos)


def first_match_len(tree, s: str):
    for e in match_lengths(tree, s, 0):
        return e
    return None


def language(tree, limit: int = 5000) -> set:
    """The finite language of a regex tree (LITERAL/IN/BRANCH/bounded repeats)."""
    items = list(tree)

    def seq(i):
        if i == len(items):
            return {""}
        op, av = items[i]
        if op is sre_c.LITERAL:
            head = {chr(av)}
        elif op is sre_c.IN:
            head = _in_chars(av)
        elif op is sre_c.BRANCH:
            head = set()
            for alt in av[1]:
                head |= language(alt, limit)
        elif op is sre_c.SUBPATTERN:
            head = language(av[3], limit)
        elif op in (sre_c.MAX_REPEAT, sre_c.MIN_REPEAT):
            lo, hi, sub = av
            if hi is sre_c.MAXREPEAT or hi > 6:
                raise Undecided("unbounded repeat")
            base = language(sub, limit)
            head = set()
            cur = {""}
            for k in range(0, hi + 1):
                if k >= lo:
                    head |= cur
                cur = {a + b for a in cur for b in base}
                if len(cur) > limit:
                    raise Undecided("language too large")
        else:
            raise Undecided("regex op %s" % op)
        tail = seq(i + 1)
        out = {a + b for a in head for b in tail}
        if len(out) > limit:
            raise Undecided("language too large")
        return out

    return seq(0)


def has_lazy(tree) -> bool:
    for op, av in tree:
        if op is sre_c.MIN_REPEAT:
            return True
        if op is sre_c.BRANCH:
            if any(has_lazy(a) for a in av[1]):
                return True
        elif op is sre_c.SUBPATTERN:
            if has_lazy(av[3]):
                return True
        elif op is sre_c.MAX_REPEAT:
            if has_lazy(av[2]):
                return True
    return False


# --------------------------------------------------------------------------
# IUPAC reference table: Z -> (symbol, name, abridged standard atomic weight
# or mass number of the longest-lived isotope for elements without one).
# Written from the IUPAC periodic table (abridged standard atomic weights,
# 2013-2021 revisions agree with each other to well within the tolerance used).
# --------------------------------------------------------------------------

IUPAC = """
1 H Hydrogen 1.008
2 He Helium 4.002602
3 Li Lithium 6.94
4 Be Beryllium 9.0121831
5 B Boron 10.81
6 C Carbon 12.011
7 N Nitrogen 14.007
8 O Oxygen 15.999
9 F Fluorine 18.998403163
10 Ne Neon 20.1797
11 Na Sodium 22.98976928
12 Mg Magnesium 24.305
13 Al Aluminium 26.9815385
14 Si Silicon 28.085
15 P Phosphorus 30.973761998
16 S Sulfur 32.06
17 Cl Chlorine 35.45
18 Ar Argon 39.948
19 K Potassium 39.0983
20 Ca Calcium 40.078
21 Sc Scandium 44.955908
22 Ti Titanium 47.867
23 V Vanadium 50.9415
24 Cr Chromium 51.9961
25 Mn Manganese 54.938044
26 Fe Iron 55.845
27 Co Cobalt 58.933194
28 Ni Nickel 58.6934
29 Cu Copper 63.546
30 Zn Zinc 65.38
31 Ga Gallium 69.723
32 Ge Germanium 72.630
33 As Arsenic 74.921595
34 Se Selenium 78.971
35 Br Bromine 79.904
36 Kr Krypton 83.798
37 Rb Rubidium 85.4678
38 Sr Strontium 87.62
39 Y Yttrium 88.90584
40 Zr Zirconium 91.224
41 Nb Niobium 92.90637
42 Mo Molybdenum 95.95
43 Tc Technetium [98]
44 Ru Ruthenium 101.07
45 Rh Rhodium 102.90550
46 Pd Palladium 106.42
47 Ag Silver 107.8682
48 Cd Cadmium 112.414
49 In Indium 114.818
50 Sn Tin 118.710
51 Sb Antimony 121.760
52 Te Tellurium 127.60
53 I Iodine 126.90447
54 Xe Xenon 131.293
55 Cs Caesium 132.90545196
56 Ba Barium 137.327
57 La Lanthanum 138.90547
58 Ce Cerium 140.116
59 Pr Praseodymium 140.90766
60 Nd Neodymium 144.242
61 Pm Promethium [145]
62 Sm Samarium 150.36
63 Eu Europium 151.964
64 Gd Gadolinium 157.25
65 Tb Terbium 158.92535
66 Dy Dysprosium 162.500
67 Ho Holmium 164.93033
68 Er Erbium 167.259
69 Tm Thulium 168.93422
70 Yb Ytterbium 173.045
71 Lu Lutetium 174.9668
72 Hf Hafnium 178.49
73 Ta Tantalum 180.94788
74 W Tungsten 183.84
75 Re Rhenium 186.207
76 Os Osmium 190.23
77 Ir Iridium 192.217
78 Pt Platinum 195.084
79 Au Gold 196.966569
80 Hg Mercury 200.592
81 Tl Thallium 204.38
82 Pb Lead 207.2
83 Bi Bismuth 208.98040
84 Po Polonium [209]
85 At Astatine [210]
86 Rn Radon [222]
87 Fr Francium [223]
88 Ra Radium [226]
89 Ac Actinium [227]
90 Th Thorium 232.0377
91 Pa Protactinium 231.03588
92 U Uranium 238.02891
93 Np Neptunium [237]
94 Pu Plutonium [244]
95 Am Americium [243]
96 Cm Curium [247]
97 Bk Berkelium [247]
98 Cf Californium [251]
99 Es Einsteinium [252]
100 Fm Fermium [257]
101 Md Mendelevium [258]
102 No Nobelium [259]
103 Lr Lawrencium [266]
104 Rf Rutherfordium [267]
105 Db Dubnium [268]
106 Sg Seaborgium [269]
107 Bh Bohrium [270]
108 Hs Hassium [270]
109 Mt Meitnerium [278]
110 Ds Darmstadtium [281]
111 Rg Roentgenium [282]
112 Cn Copernicium [285]
113 Nh Nihonium [286]
114 Fl Flerovium [289]
115 Mc Moscovium [290]
116 Lv Livermorium [293]
117 Ts Tennessine [294]
118 Og Oganesson [294]
"""

# accepted spelling variants of element names (IUPAC / US / older)
NAME_VARIANTS = {
    "Aluminium": {"Aluminum"},
    "Caesium": {"Cesium"},
    "Sulfur": {"Sulphur"},
}


def iupac_table():
    out = {}
    for line in IUPAC.strip().splitlines():
        z, sym, name, w = line.split()
        radioactive = w.startswith("[")
        out[int(z)] = (sym, name, float(w.strip("[]")), radioactive)
    assert len(out) == 118
    return out


# --------------------------------------------------------------------------
# roman numerals: standard definition
# --------------------------------------------------------------------------

ROMAN_LETTERS = {"I": 1, "V": 5, "X": 10, "L": 50, "C": 100, "D": 500, "M": 1000}


def roman_value(tok: str):
    """Value of a roman token under the standard subtractive definition
    (None if a letter is unknown)."""
    total = 0
    vals = []
    for ch in tok:
        if ch not in ROMAN_LETTERS:
            return None
        vals.append(ROMAN_LETTERS[ch])
    for i, v in enumerate(vals):
        if i + 1 < len(vals) and vals[i + 1] > v:
            total -= v
        else:
            total += v
    return total


# --------------------------------------------------------------------------
# CODATA 2018 (SI, exact where defined)
# --------------------------------------------------------------------------

CODATA = dict(
    N_A=6.02214076e23,
    k_B=1.380649e-23,
    h=6.62607015e-34,
    e=1.602176634e-19,
    eps0=8.8541878128e-12,
    m_e_u=5.48579909065e-4,  # electron mass in u
    c=299792458.0,
)
CODATA["R"] = CODATA["N_A"] * CODATA["k_B"]  # 8.314462618
CODATA["F"] = CODATA["N_A"] * CODATA["e"]  # 96485.33212
CODATA["kB_over_h"] = CODATA["k_B"] / CODATA["h"]  # 2.083661912e10

SI_PREFIX = dict(
    yotta=1e24, zetta=1e21, exa=1e18, peta=1e15, tera=1e12, giga=1e9, mega=1e6, kilo=1e3,
    hecto=1e2, deca=1e1, deci=1e-1, centi=1e-2, milli=1e-3, micro=1e-6, nano=1e-9,
    pico=1e-12, femto=1e-15, atto=1e-18,
)
