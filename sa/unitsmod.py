"""Facts derived from chempy/units.py by abstract interpretation: the
derived-unit table of get_derived_unit and the module-level dimension dicts."""
from __future__ import annotations

import ast
from typing import Dict

from .astu import U, walk_shallow, linform, call_name
from .core import AnalysisError
from .dims import V, TOP, Interp, mk_dim, NAME_BASE, lx, dim_mul, lx_const
from .dimrun import module_env

UNITS = "chempy/units.py"


def _registry_hook(interp, base, idx, node):
    if base.kind == "registry" and idx.kind == "str" and idx.name in NAME_BASE:
        return V("q", dim={NAME_BASE[idx.name]: lx(1)}, unit=None, val=None)
    return None


def derived_table(repo) -> Dict[str, V]:
    """key -> V for every entry of get_derived_unit.derived (registry[d] |-> base dimension d)"""
    m = repo.mod(UNITS)
    fn = m.func("get_derived_unit")
    it = Interp(fn, {"registry": V("registry"), "key": V("str")}, module_env(repo, UNITS), None, hooks={"subscript": _registry_hook})
    it.run()
    d = it.final_env.get("derived") if it.final_env else None
    if d is None or d.kind != "dict" or not d.items:
        raise AnalysisError("get_derived_unit: the `derived` table could not be interpreted")
    return dict(d.items)


def dimdict_eval(node, env: Dict[str, dict], sym_atoms=("order",)) -> dict:
    """Evaluate a *dimension dict* expression to a dim: dict literals with linear
    exponents, names bound in env, ArithmeticDict(int, {...}), `a + b` (product of
    dimensions), `a - b` (quotient)."""
    if isinstance(node, ast.Dict):
        out = {}
        for k, v in zip(node.keys, node.values):
            if not (isinstance(k, ast.Constant) and k.value in NAME_BASE):
                raise AnalysisError("dimension dict with unknown key %s" % (U(k) if k is not None else None))
            lf = linform(v)
            if lf:
                out[NAME_BASE[k.value]] = lf
        return out
    if isinstance(node, ast.Name):
        if node.id in env:
            return env[node.id]
        raise AnalysisError("unknown dimension name %s" % node.id)
    if isinstance(node, ast.Call) and call_name(node) == "ArithmeticDict" and len(node.args) == 2:
        return dimdict_eval(node.args[1], env)
    if isinstance(node, ast.BinOp) and isinstance(node.op, (ast.Add, ast.Sub)):
        a, b = dimdict_eval(node.left, env), dimdict_eval(node.right, env)
        return dim_mul(a, b, 1 if isinstance(node.op, ast.Add) else -1)
    raise AnalysisError("unsupported dimension-dict expression: %s" % U(node))


def module_dimdicts(repo) -> Dict[str, dict]:
    """time/length/.../energy/volume/concentration as defined at module level of units.py"""
    m = repo.mod(UNITS)
    env: Dict[str, dict] = {}
    for s in m.tree.body:
        if isinstance(s, ast.Assign) and isinstance(s.targets[0], ast.Name):
            try:
                env[s.targets[0].id] = dimdict_eval(s.value, env)
            except AnalysisError:
                continue
    return env
