"""AST utilities: normalised text, dotted names, shallow walks, literal folding
(E1 part), linear and monomial normal forms (E4)."""
from __future__ import annotations

import ast
import keyword
import re
from fractions import Fraction
from typing import Dict, Iterable, Optional

from .core import AnalysisError


def U(node) -> str:
    """Normalised source text of a node (formatting/quote-style independent)."""
    return ast.unparse(node)


def S(x) -> str:
    """Squashed text: unparse, then drop whitespace and parentheses, so that
    `(a, b) = f(x)` and `a, b = f(x)` or re-indented blocks compare equal."""
    t = x if isinstance(x, str) else ast.unparse(x)
    return "".join(ch for ch in t if ch not in " \n\t()")


_TOKEN = re.compile(
    r"[A-Za-z_]\w*|\d+(?:\.\d*)?(?:[eE][+-]?\d+)?|\.\d+|'(?:[^'\\]|\\.)*'|\"(?:[^\"\\]|\\.)*\"|\*\*=?|//=?|==|!=|<=|>=|->|\+=|-=|\*=|/=|[-+*/%=<>\[\]{}.,:;@&|^~]")


def toks(text: str) -> list:
    """Lexical tokens with whitespace and parentheses dropped; string quotes normalised."""
    out = []
    for t in _TOKEN.findall(text):
        if len(t) >= 2 and t[0] == '"' and t[-1] == '"' and "'" not in t:
            t = "'" + t[1:-1] + "'"
        out.append(t)
    return out


def local_names(scope) -> set:
    """Names a function (or any node) binds: parameters, assignment/loop/comprehension targets."""
    out = set()
    for n in ast.walk(scope):
        if isinstance(n, ast.Name) and isinstance(n.ctx, ast.Store):
            out.add(n.id)
        elif isinstance(n, ast.arg):
            out.add(n.arg)
    out -= {"self", "cls"}
    return out


_IDENT = re.compile(r"[A-Za-z_]\w*$")


def has(node, fragment: str, scope=None) -> bool:
    """Does the (unparsed) node contain `fragment`, token by token?

    Whitespace, parentheses and quote style are ignored.  A *local variable* of the
    scope that the fragment spells differently still matches, provided the
    fragment's spelling no longer occurs anywhere in the scope and the mapping is a
    consistent bijection -- so a behaviour-preserving rename of a local stays silent,
    while attributes, globals, literals and names that do exist must match exactly."""
    text = node if isinstance(node, str) else ast.unparse(node)
    tt = toks(text)
    pt = toks(fragment)
    if not pt:
        return True
    sc = scope if scope is not None else (node if not isinstance(node, str) else None)
    locs = local_names(sc) if sc is not None else set()
    present = set(toks(ast.unparse(sc))) if sc is not None else set(tt)
    pat_idents = {t for t in pt if _IDENT.match(t)}
    n, m = len(tt), len(pt)
    for i in range(0, n - m + 1):
        fwd, bwd = {}, {}
        ok = True
        for j in range(m):
            p_, t_ = pt[j], tt[i + j]
            if p_ == t_:
                if _IDENT.match(p_):
                    if fwd.get(p_, t_) != t_ or bwd.get(t_, p_) != p_:
                        ok = False
                        break
                    fwd[p_] = t_
                    bwd[t_] = p_
                continue
            if not (_IDENT.match(p_) and _IDENT.match(t_)) or keyword.iskeyword(p_) or keyword.iskeyword(t_):
                ok = False
                break
            prev_p = pt[j - 1] if j else ""
            prev_t = tt[i + j - 1] if i + j else ""
            if prev_p == "." or prev_t == ".":  # attribute names are part of the interface
                ok = False
                break
            if p_ in present or t_ not in locs or t_ in pat_idents:
                ok = False
                break
            if fwd.get(p_, t_) != t_ or bwd.get(t_, p_) != p_:
                ok = False
                break
            fwd[p_] = t_
            bwd[t_] = p_
        if ok:
            return True
    return False


def same(node, fragment: str, scope=None) -> bool:
    """The whole node equals the fragment (same token discipline as `has`)."""
    text = node if isinstance(node, str) else ast.unparse(node)
    if len(toks(text)) == len(toks(fragment)) and has(node, fragment, scope=scope):
        return True
    # the same expression up to the order of commutative operands, bracketing, a > b vs b < a ... (locals are already canonical)
    if isinstance(node, ast.expr):
        try:
            frag = ast.parse(fragment, mode="eval").body
        except SyntaxError:
            return False
        try:
            return canon_expr(node) == canon_expr(frag)
        except Exception:
            return False
    return False


def dotted(node) -> Optional[str]:
    if isinstance(node, ast.Name):
        return node.id
    if isinstance(node, ast.Attribute):
        b = dotted(node.value)
        return None if b is None else b + "." + node.attr
    return None


def call_name(call) -> Optional[str]:
    return dotted(call.func) if isinstance(call, ast.Call) else None


def kwarg(call: ast.Call, name: str):
    for k in call.keywords:
        if k.arg == name:
            return k.value
    return None


def has_starkw(call: ast.Call) -> bool:
    return any(k.arg is None for k in call.keywords)


_SCOPES = (ast.FunctionDef, ast.AsyncFunctionDef, ast.ClassDef, ast.Lambda)


def walk_shallow(node, include_lambda=True) -> Iterable[ast.AST]:
    """ast.walk that does not descend into nested def/class (and, optionally,
    lambda) bodies.  The root itself may be a function."""
    todo = list(ast.iter_child_nodes(node))[::-1]
    while todo:  # depth-first, pre-order == source order
        n = todo.pop()
        yield n
        if isinstance(n, (ast.FunctionDef, ast.AsyncFunctionDef, ast.ClassDef)):
            continue
        if isinstance(n, ast.Lambda) and not include_lambda:
            continue
        todo.extend(list(ast.iter_child_nodes(n))[::-1])


def calls_in(node, shallow=True) -> Iterable[ast.Call]:
    it = walk_shallow(node) if shallow else ast.walk(node)
    for n in it:
        if isinstance(n, ast.Call):
            yield n


def names_in(node) -> set:
    return {n.id for n in ast.walk(node) if isinstance(n, ast.Name)}


def stmts_shallow(body) -> Iterable[ast.stmt]:
    """All statements reachable in a body without entering nested defs."""
    for s in body:
        yield s
        for fld in ("body", "orelse", "finalbody"):
            sub = getattr(s, fld, None)
            if sub and not isinstance(s, (ast.FunctionDef, ast.AsyncFunctionDef, ast.ClassDef)):
                yield from stmts_shallow(sub)
        if isinstance(s, ast.Try):
            for h in s.handlers:
                yield from stmts_shallow(h.body)


def parent_map(root) -> Dict[ast.AST, ast.AST]:
    pm = {}
    for p in ast.walk(root):
        for c in ast.iter_child_nodes(p):
            pm[c] = p
    return pm


def docstring_stripped(fn):
    body = fn.body
    if body and isinstance(body[0], ast.Expr) and isinstance(body[0].value, ast.Constant) and isinstance(body[0].value.value, str):
        return body[1:]
    return body


def param_names(fn) -> list:
    a = fn.args
    return [x.arg for x in a.posonlyargs + a.args + a.kwonlyargs]


def param_default(fn, name):
    a = fn.args
    pos = a.posonlyargs + a.args
    defaults = [None] * (len(pos) - len(a.defaults)) + list(a.defaults)
    for p, d in zip(pos, defaults):
        if p.arg == name:
            return d
    for p, d in zip(a.kwonlyargs, a.kw_defaults):
        if p.arg == name:
            return d
    return None


# --------------------------------------------------------------------------
# literal folding (tables only)
# --------------------------------------------------------------------------


class NotLiteral(Exception):
    pass


_TABLE_BUILDERS = {dict: ("update", "setdefault"), list: ("append", "extend", "insert"), set: ("add", "update")}


_SAFE_FUNCS = {
    "tuple": tuple, "list": list, "dict": dict, "set": set, "frozenset": frozenset, "zip": zip,
    "enumerate": enumerate, "range": range, "len": len, "str": str, "int": int,
    "float": float, "sorted": sorted, "reversed": reversed, "sum": sum, "min": min,
    "max": max, "abs": abs, "chr": chr, "ord": ord, "bool": bool, "map": None,
}
_SAFE_METHODS = {
    str: {"split", "lower", "upper", "capitalize", "join", "startswith", "endswith", "strip",
          "replace", "format", "title", "rstrip", "lstrip", "count", "index", "isdigit"},
    tuple: {"index", "count"},
    list: {"index", "count", "copy"},
    dict: {"keys", "values", "items", "get", "copy"},
}
_BINOPS = {
    ast.Add: lambda a, b: a + b, ast.Sub: lambda a, b: a - b, ast.Mult: lambda a, b: a * b,
    ast.Div: lambda a, b: a / b, ast.FloorDiv: lambda a, b: a // b, ast.Mod: lambda a, b: a % b,
    ast.Pow: lambda a, b: a ** b, ast.BitXor: lambda a, b: a ^ b, ast.BitOr: lambda a, b: a | b,
    ast.BitAnd: lambda a, b: a & b,
}
_CMPOPS = {
    ast.Eq: lambda a, b: a == b, ast.NotEq: lambda a, b: a != b, ast.Lt: lambda a, b: a < b,
    ast.LtE: lambda a, b: a <= b, ast.Gt: lambda a, b: a > b, ast.GtE: lambda a, b: a >= b,
    ast.In: lambda a, b: a in b, ast.NotIn: lambda a, b: a not in b,
    ast.Is: lambda a, b: a is b, ast.IsNot: lambda a, b: a is not b,
}


def fold(node, env: Optional[dict] = None, _depth=0):
    """Evaluate a *literal-level* expression: constants, containers, names bound
    in `env` to already folded values, arithmetic/str ops on them, comprehensions
    over them and a whitelist of pure builtins / str methods.  Anything else
    raises NotLiteral."""
    env = env if env is not None else {}
    if _depth > 60:
        raise NotLiteral("depth")
    f = lambda n, e=None: fold(n, env if e is None else e, _depth + 1)  # noqa: E731
    if isinstance(node, ast.Constant):
        return node.value
    if isinstance(node, ast.Name):
        if node.id in env:
            return env[node.id]
        raise NotLiteral("name %s" % node.id)
    if isinstance(node, ast.Tuple):
        return tuple(f(e) for e in node.elts)
    if isinstance(node, ast.List):
        return [f(e) for e in node.elts]
    if isinstance(node, ast.Set):
        return {f(e) for e in node.elts}
    if isinstance(node, ast.Dict):
        out = {}
        for k, v in zip(node.keys, node.values):
            if k is None:
                out.update(f(v))
            else:
                out[f(k)] = f(v)
        return out
    if isinstance(node, ast.BinOp) and type(node.op) in _BINOPS:
        a, b = f(node.left), f(node.right)
        try:
            return _BINOPS[type(node.op)](a, b)
        except Exception as e:
            raise NotLiteral(str(e))
    if isinstance(node, ast.UnaryOp):
        v = f(node.operand)
        if isinstance(node.op, ast.USub):
            return -v
        if isinstance(node.op, ast.UAdd):
            return +v
        if isinstance(node.op, ast.Not):
            return not v
    if isinstance(node, ast.BoolOp):
        vals = [f(v) for v in node.values]
        if isinstance(node.op, ast.And):
            r = True
            for v in vals:
                r = v
                if not v:
                    break
            return r
        r = False
        for v in vals:
            r = v
            if v:
                break
        return r
    if isinstance(node, ast.Compare):
        left = f(node.left)
        for op, c in zip(node.ops, node.comparators):
            right = f(c)
            if not _CMPOPS[type(op)](left, right):
                return False
            left = right
        return True
    if isinstance(node, ast.IfExp):
        return f(node.body) if f(node.test) else f(node.orelse)
    if isinstance(node, ast.Subscript):
        v = f(node.value)
        sl = node.slice
        try:
            if isinstance(sl, ast.Slice):
                lo = f(sl.lower) if sl.lower else None
                hi = f(sl.upper) if sl.upper else None
                st = f(sl.step) if sl.step else None
                return v[lo:hi:st]
            return v[f(sl)]
        except NotLiteral:
            raise
        except Exception as e:
            raise NotLiteral(str(e))
    if isinstance(node, ast.JoinedStr):
        parts = []
        for v in node.values:
            if isinstance(v, ast.Constant):
                parts.append(v.value)
            elif isinstance(v, ast.FormattedValue) and v.format_spec is None and v.conversion == -1:
                parts.append(str(f(v.value)))
            else:
                raise NotLiteral("fstring")
        return "".join(parts)
    if isinstance(node, (ast.ListComp, ast.SetComp, ast.GeneratorExp, ast.DictComp)):
        results = []

        def rec(i, e):
            if i == len(node.generators):
                if isinstance(node, ast.DictComp):
                    results.append((fold(node.key, e, _depth + 1), fold(node.value, e, _depth + 1)))
                else:
                    results.append(fold(node.elt, e, _depth + 1))
                return
            g = node.generators[i]
            for item in fold(g.iter, e, _depth + 1):
                e2 = dict(e)
                _bind(g.target, item, e2)
                if all(fold(c, e2, _depth + 1) for c in g.ifs):
                    rec(i + 1, e2)

        rec(0, env)
        if isinstance(node, ast.ListComp):
            return results
        if isinstance(node, ast.SetComp):
            return set(results)
        if isinstance(node, ast.DictComp):
            return dict(results)
        return iter(results)  # generator: consumed by tuple()/list()/...
    if isinstance(node, ast.Call):
        if any(k.arg is None for k in node.keywords):
            raise NotLiteral("**kw")
        if isinstance(node.func, ast.Name) and isinstance(env.get(node.func.id), FoldableFunction):
            if any(isinstance(a, ast.Starred) for a in node.args):
                raise NotLiteral("*args")
            return env[node.func.id].call([f(a) for a in node.args], {k.arg: f(k.value) for k in node.keywords}, _depth + 1)
        if isinstance(node.func, ast.Name) and node.func.id in _SAFE_FUNCS and node.func.id not in env:
            fn = _SAFE_FUNCS[node.func.id]
            if fn is None and node.func.id == "map" and len(node.args) >= 2 and isinstance(node.args[0], ast.Name) \
                    and _SAFE_FUNCS.get(node.args[0].id) is not None and node.args[0].id not in env:
                g = _SAFE_FUNCS[node.args[0].id]
                seqs = [list(f(a)) for a in node.args[1:]]
                try:
                    return [g(*xs) for xs in zip(*seqs)]
                except Exception as e:
                    raise NotLiteral(str(e))
            if fn is None:
                raise NotLiteral(node.func.id)
            args = []
            for a in node.args:
                if isinstance(a, ast.Starred):
                    args.extend(list(f(a.value)))   # f(*table)
                else:
                    args.append(f(a))
            kws = {k.arg: f(k.value) for k in node.keywords}
            try:
                r = fn(*args, **kws)
            except Exception as e:
                raise NotLiteral(str(e))
            if fn in (zip, enumerate, reversed, range):
                r = list(r)
            return r
        if isinstance(node.func, ast.Attribute):
            recv = f(node.func.value)
            for typ, meths in _SAFE_METHODS.items():
                if isinstance(recv, typ) and node.func.attr in meths:
                    args = [f(a) for a in node.args]
                    args = [list(a) if hasattr(a, "__next__") else a for a in args]
                    try:
                        r = getattr(recv, node.func.attr)(*args)
                    except Exception as e:
                        raise NotLiteral(str(e))
                    if node.func.attr in ("keys", "values", "items"):
                        r = list(r)
                    return r
        raise NotLiteral("call %s" % U(node.func))
    raise NotLiteral(type(node).__name__)


class _Return(Exception):
    def __init__(self, value):
        self.value = value


class _Break(Exception):
    pass


class _Continue(Exception):
    pass


class FoldableFunction:
    """A module-level function of the table-building kind (`def _get_relative_atomic_masses(): for ...: yield ...`), evaluated by the folder when a
    module-level constant is defined by calling it on literal arguments: assignments, if / for / break / continue, yield, return over the
    literal fragment of fold().  Anything else raises NotLiteral (the constant is then simply unknown)."""
    BUDGET = 200000

    def __init__(self, fn: ast.FunctionDef, module_env: dict):
        self.fn = fn
        self.module_env = module_env     # shared: sees what the module has bound so far

    def call(self, args, kwargs, depth=0):
        fn = self.fn
        a = fn.args
        if depth > 40 or a.vararg or a.kwarg or a.posonlyargs or a.kwonlyargs or fn.decorator_list:
            raise NotLiteral("function %s" % fn.name)
        names = [x.arg for x in a.args]
        if len(args) > len(names):
            raise NotLiteral("arity")
        local = dict(zip(names, args))
        for k, v in kwargs.items():
            if k not in names or k in local:
                raise NotLiteral("keyword")
            local[k] = v
        defaults = dict(zip(names[len(names) - len(a.defaults):], a.defaults))
        for n in names:
            if n not in local:
                if n not in defaults:
                    raise NotLiteral("missing argument")
                local[n] = fold(defaults[n], self.module_env, depth + 1)
        is_gen = any(isinstance(x, (ast.Yield, ast.YieldFrom)) for x in _walk_own(fn))
        out = []
        steps = [0]

        def ev(e):
            scope = dict(self.module_env)
            scope.update(local)
            v = fold(e, scope, depth + 1)
            return list(v) if hasattr(v, "__next__") else v

        def run(stmts):
            for st in stmts:
                steps[0] += 1
                if steps[0] > self.BUDGET:
                    raise NotLiteral("budget")
                if isinstance(st, ast.Expr):
                    if isinstance(st.value, ast.Constant):
                        continue
                    if isinstance(st.value, ast.Yield):
                        out.append(ev(st.value.value) if st.value.value is not None else None)
                        continue
                    if isinstance(st.value, ast.YieldFrom):
                        out.extend(ev(st.value.value))
                        continue
                    ev(st.value)
                elif isinstance(st, ast.Assign):
                    v = ev(st.value)
                    for t in st.targets:
                        _bind(t, v, local)
                elif isinstance(st, ast.AugAssign) and isinstance(st.target, ast.Name) and type(st.op) in _BINOPS:
                    try:
                        local[st.target.id] = _BINOPS[type(st.op)](ev(st.target), ev(st.value))
                    except NotLiteral:
                        raise
                    except Exception as e:
                        raise NotLiteral(str(e))
                elif isinstance(st, ast.If):
                    run(st.body if ev(st.test) else st.orelse)
                elif isinstance(st, ast.For):
                    broke = False
                    for item in ev(st.iter):
                        _bind(st.target, item, local)
                        try:
                            run(st.body)
                        except _Break:
                            broke = True
                            break
                        except _Continue:
                            continue
                    if not broke:
                        run(st.orelse)
                elif isinstance(st, ast.Return):
                    raise _Return(ev(st.value) if st.value is not None else None)
                elif isinstance(st, ast.Break):
                    raise _Break()
                elif isinstance(st, ast.Continue):
                    raise _Continue()
                elif isinstance(st, ast.Pass):
                    pass
                else:
                    raise NotLiteral("statement %s" % type(st).__name__)

        ret = None
        try:
            run(fn.body)
        except _Return as r:
            ret = r.value
        except (_Break, _Continue):
            raise NotLiteral("stray break/continue")
        return out if is_gen else ret


def _walk_own(fn):
    """nodes of fn's own body (nested functions and lambdas excluded)"""
    stack = list(fn.body)
    while stack:
        n = stack.pop()
        yield n
        for c in ast.iter_child_nodes(n):
            if not isinstance(c, (ast.FunctionDef, ast.AsyncFunctionDef, ast.Lambda, ast.ClassDef)):
                stack.append(c)


def _bind(target, value, env):
    if isinstance(target, ast.Name):
        env[target.id] = value
    elif isinstance(target, (ast.Tuple, ast.List)):
        vals = list(value)
        if len(vals) != len(target.elts):
            raise NotLiteral("unpack")
        for t, v in zip(target.elts, vals):
            _bind(t, v, env)
    else:
        raise NotLiteral("target")


def fold_module_tables(tree: ast.Module, seed_env: Optional[dict] = None) -> dict:
    """Interpret the module-level *table building* statements in order:
    `name = <literal expr>`, `name[<lit>] = <lit>`, and `for` loops over
    literal iterables whose bodies are such statements.  Unfoldable names are
    simply absent from the result (and poison what depends on them)."""
    env = dict(seed_env or {})

    def run(stmts, env):
        for s in stmts:
            try:
                if isinstance(s, ast.Assign):
                    v = fold(s.value, env)
                    if hasattr(v, "__next__"):
                        v = list(v)
                    for t in s.targets:
                        if isinstance(t, ast.Subscript) and isinstance(t.value, ast.Name) and t.value.id in env:
                            env[t.value.id][fold(t.slice, env)] = v
                        else:
                            _bind(t, v, env)
                elif isinstance(s, ast.For) and not s.orelse:
                    for item in fold(s.iter, env):
                        _bind(s.target, item, env)
                        run(s.body, env)
                elif isinstance(s, ast.FunctionDef):
                    env[s.name] = FoldableFunction(s, env)
                elif isinstance(s, ast.Expr) and isinstance(s.value, ast.Call) and isinstance(s.value.func, ast.Attribute) and isinstance(s.value.func.value, ast.Name) \
                        and s.value.func.value.id in env and s.value.func.attr in _TABLE_BUILDERS.get(type(env[s.value.func.value.id]), ()):
                    # a table completed in place: groups.update([...]), names.append(...)
                    if s.value.keywords and s.value.func.attr != "update":
                        raise NotLiteral("keywords")
                    args = [list(v) if hasattr(v, "__next__") else v for v in (fold(a, env) for a in s.value.args)]
                    kws = {k.arg: fold(k.value, env) for k in s.value.keywords}
                    if None in kws:
                        raise NotLiteral("**kw")
                    try:
                        getattr(env[s.value.func.value.id], s.value.func.attr)(*args, **kws)
                    except Exception as e:
                        raise NotLiteral(str(e))
            except NotLiteral:
                # whatever this statement binds becomes unknown
                for n in ast.walk(s):
                    if isinstance(n, ast.Name) and isinstance(n.ctx, ast.Store):
                        env.pop(n.id, None)
                    if isinstance(n, ast.Subscript) and isinstance(n.ctx, ast.Store) and isinstance(n.value, ast.Name):
                        env.pop(n.value.id, None)

    run(tree.body, env)
    return env


# --------------------------------------------------------------------------
# E4: linear forms and monomials over opaque atoms
# --------------------------------------------------------------------------


class NotLinear(Exception):
    pass


def default_atom(node) -> str:
    """Canonical atom text.  `d.get(k, 0)` and `d[k]` are the same atom."""
    if isinstance(node, ast.Call) and isinstance(node.func, ast.Attribute) and node.func.attr == "get" \
            and len(node.args) == 2 and isinstance(node.args[1], ast.Constant) and node.args[1].value == 0:
        return "%s[%s]" % (U(node.func.value), U(node.args[0]))
    return U(node)


def _num(node):
    if isinstance(node, ast.Constant) and isinstance(node.value, (int, float)) and not isinstance(node.value, bool):
        if isinstance(node.value, float):
            if node.value != node.value or node.value in (float("inf"), float("-inf")):
                return None
            return Fraction(repr(node.value))  # the decimal literal exactly (1e-14 is 1/10**14, not 0)
        return Fraction(node.value)
    if isinstance(node, ast.UnaryOp) and isinstance(node.op, ast.USub):
        v = _num(node.operand)
        return None if v is None else -v
    return None


def linform(node, atom=default_atom, env: Optional[dict] = None) -> Dict[str, Fraction]:
    """Σ c_i·atom_i as {atom: coefficient}; the constant term has atom '1'.
    `env` maps local names to already computed linear forms (substitution)."""
    out: Dict[str, Fraction] = {}

    def add(d, scale):
        for k, v in d.items():
            out[k] = out.get(k, Fraction(0)) + v * scale

    def rec(n, scale):
        c = _num(n)
        if c is not None:
            add({"1": c}, scale)
            return
        if isinstance(n, ast.BinOp):
            if isinstance(n.op, ast.Add):
                rec(n.left, scale)
                rec(n.right, scale)
                return
            if isinstance(n.op, ast.Sub):
                rec(n.left, scale)
                rec(n.right, -scale)
                return
            if isinstance(n.op, ast.Mult):
                cl, cr = _num(n.left), _num(n.right)
                if cl is not None:
                    rec(n.right, scale * cl)
                    return
                if cr is not None:
                    rec(n.left, scale * cr)
                    return
            if isinstance(n.op, ast.Div):
                cr = _num(n.right)
                if cr:
                    rec(n.left, scale / cr)
                    return
        if isinstance(n, ast.UnaryOp) and isinstance(n.op, ast.USub):
            rec(n.operand, -scale)
            return
        if isinstance(n, ast.UnaryOp) and isinstance(n.op, ast.UAdd):
            rec(n.operand, scale)
            return
        if isinstance(n, ast.Name) and env and n.id in env:
            add(env[n.id], scale)
            return
        if isinstance(n, ast.BinOp) and isinstance(n.op, (ast.Mult, ast.Div)):
            # pull a leading sign out of a product: (-a) / b  ==  -(a / b)
            if isinstance(n.left, ast.UnaryOp) and isinstance(n.left.op, ast.USub):
                rec(ast.BinOp(left=n.left.operand, op=n.op, right=n.right), -scale)
                return
            if isinstance(n.right, ast.UnaryOp) and isinstance(n.right.op, ast.USub):
                rec(ast.BinOp(left=n.left, op=n.op, right=n.right.operand), -scale)
                return
        add({atom(n): Fraction(1)}, scale)

    rec(node, Fraction(1))
    return {k: v for k, v in out.items() if v != 0}


def lin_str(lf: Dict[str, Fraction]) -> str:
    if not lf:
        return "0"
    parts = []
    for k in sorted(lf):
        c = lf[k]
        parts.append("%s%s*%s" % ("+" if c >= 0 else "-", abs(c), k) if k != "1" else "%s%s" % ("+" if c >= 0 else "-", abs(c)))
    return " ".join(parts)


def monomial(node, atom=default_atom, env: Optional[dict] = None):
    """coef · Π atom_i ** e_i   with e_i linear forms.  Returns (coef, {atom: linform}).
    `env` maps names to (coef, powers) already computed."""
    coef = [Fraction(1)]
    powers: Dict[str, Dict[str, Fraction]] = {}

    def addpow(a, e):
        cur = powers.setdefault(a, {})
        for k, v in e.items():
            cur[k] = cur.get(k, Fraction(0)) + v
            if cur[k] == 0:
                del cur[k]
        if not cur:
            del powers[a]

    def scale(e, s):
        # e, s linear forms; product only if one is constant
        if set(s) <= {"1"}:
            c = s.get("1", Fraction(0))
            return {k: v * c for k, v in e.items() if v * c != 0}
        if set(e) <= {"1"}:
            c = e.get("1", Fraction(0))
            return {k: v * c for k, v in s.items() if v * c != 0}
        raise NotLinear("non-linear exponent")

    def rec(n, exp):
        c = _num(n)
        if c is not None:
            if set(exp) <= {"1"}:
                p = exp.get("1", Fraction(0))
                if p.denominator == 1:
                    coef[0] *= c ** int(p)
                    return
            if c == 1:
                return
            addpow(str(c), exp)
            return
        if isinstance(n, ast.BinOp):
            if isinstance(n.op, ast.Mult):
                rec(n.left, exp)
                rec(n.right, exp)
                return
            if isinstance(n.op, ast.Div):
                rec(n.left, exp)
                rec(n.right, scale(exp, {"1": Fraction(-1)}))
                return
            if isinstance(n.op, ast.Pow):
                e = linform(n.right, atom)
                rec(n.left, scale(exp, e))
                return
        if isinstance(n, ast.UnaryOp) and isinstance(n.op, ast.USub):
            if set(exp) <= {"1"} and exp.get("1", Fraction(0)).denominator == 1:
                coef[0] *= (-1) ** int(exp.get("1", 0))
                rec(n.operand, exp)
                return
        if isinstance(n, ast.Name) and env and n.id in env:
            c2, p2 = env[n.id]
            if set(exp) <= {"1"} and exp.get("1", Fraction(0)).denominator == 1:
                coef[0] *= c2 ** int(exp.get("1", 0))
            elif c2 != 1:
                addpow(str(c2), exp)
            for a, e in p2.items():
                addpow(a, scale(e, exp))
            return
        addpow(atom(n), exp)

    rec(node, {"1": Fraction(1)})
    return coef[0], powers


def mono_str(m) -> str:
    coef, powers = m
    parts = [] if coef == 1 else [str(coef)]
    for a in sorted(powers):
        parts.append("%s^(%s)" % (a, lin_str(powers[a])))
    return " * ".join(parts) if parts else "1"


def mono_eq(a, b) -> bool:
    return a[0] == b[0] and a[1] == b[1]


# ---------------------------------------------------------------------------
# canonical algebraic form (E4, nested): sums of products over canonical atoms
# ---------------------------------------------------------------------------

def canon_expr(node, env: Optional[dict] = None, ones: tuple = ()):
    """A hashable normal form of an arithmetic expression, equal for expressions that differ only by the order of
    operands of + and *, by parenthesisation, by `a - b` vs `a + -b`, `a / b` vs `a * b**-1`, repeated factors vs powers,
    numeric factors collected into one coefficient, and by local names in `env` (name -> ast node) being inlined.
    Sums are NOT multiplied out (a*(b+c) and a*b+a*c are different forms).  `ones` names variables that stand for the number 1.

    form := ('sum', ((coef, prod), ...))       -- at least two terms or a constant term
          | ('prod', coef, ((atom, exp), ...)) -- inside a sum the coefficient is carried by the sum
    atoms are ('sym', text) | ('call', name, (form, ...)) | ('pow', form, form) | nested 'sum' forms."""
    env = env or {}
    F = Fraction

    def lift(n):  # -> list of (coef, {atom: exp})
        c = _num(n)
        if c is not None:
            return [(c, {})]
        if isinstance(n, ast.Name) and n.id in ones:
            return [(F(1), {})]
        if isinstance(n, ast.Name) and n.id in env:
            return lift(env[n.id])
        if isinstance(n, ast.UnaryOp) and isinstance(n.op, ast.USub):
            return [(-c_, p) for c_, p in lift(n.operand)]
        if isinstance(n, ast.UnaryOp) and isinstance(n.op, ast.UAdd):
            return lift(n.operand)
        if isinstance(n, ast.BinOp):
            if isinstance(n.op, ast.Add):
                return lift(n.left) + lift(n.right)
            if isinstance(n.op, ast.Sub):
                return lift(n.left) + [(-c_, p) for c_, p in lift(n.right)]
            if isinstance(n.op, (ast.Mult, ast.Div)):
                l, r = lift(n.left), lift(n.right)
                sgn = 1 if isinstance(n.op, ast.Mult) else -1
                lt = l[0] if len(l) == 1 else (F(1), {as_atom(l): F(1)})
                rt = r[0] if len(r) == 1 else (F(1), {as_atom(r): F(1)})
                if sgn == -1 and rt[0] == 0:
                    raise NotLinear("division by zero literal")
                coef = lt[0] * (rt[0] if sgn == 1 else 1 / rt[0])
                p = dict(lt[1])
                for a_, e_ in rt[1].items():
                    p[a_] = p.get(a_, F(0)) + sgn * e_
                return [(coef, {a_: e_ for a_, e_ in p.items() if e_ != 0})]
            if isinstance(n.op, ast.Pow):
                b = lift(n.left)
                e = lift(n.right)
                if len(e) == 1 and not e[0][1]:  # numeric exponent
                    ex = e[0][0]
                    if len(b) == 1:
                        cb, pb = b[0]
                        if ex.denominator == 1 and abs(ex) <= 64 and (cb != 0 or ex >= 0):
                            return [(cb ** int(ex), {a_: e_ * ex for a_, e_ in pb.items()})]
                        if cb == 1:
                            return [(F(1), {a_: e_ * ex for a_, e_ in pb.items()})]
                    return [(F(1), {as_atom(b): ex})]
                return [(F(1), {("pow", finish(b), finish(e)): F(1)})]
        if isinstance(n, ast.Compare) and len(n.ops) == 1:
            l, r = finish(lift(n.left)), finish(lift(n.comparators[0]))
            op = type(n.ops[0]).__name__
            flip = {"Gt": "Lt", "GtE": "LtE"}
            if op in flip:  # a > b  ==  b < a
                op, l, r = flip[op], r, l
            if op in ("Eq", "NotEq") and repr(l) > repr(r):
                l, r = r, l
            return [(F(1), {("cmp", op, l, r): F(1)})]
        if isinstance(n, ast.BoolOp):
            vals = tuple(sorted((finish(lift(v)) for v in n.values), key=repr))
            return [(F(1), {("bool", type(n.op).__name__, vals): F(1)})]
        if isinstance(n, ast.UnaryOp) and isinstance(n.op, ast.Not):
            return [(F(1), {("not", finish(lift(n.operand))): F(1)})]
        if isinstance(n, ast.IfExp):
            return [(F(1), {("ifexp", finish(lift(n.test)), finish(lift(n.body)), finish(lift(n.orelse))): F(1)})]
        if isinstance(n, ast.Call):
            nm = dotted(n.func) or ast.unparse(n.func)
            short = nm.split(".")[-1]
            args = tuple(finish(lift(a)) for a in n.args if not isinstance(a, ast.Starred))
            if len(args) != len(n.args) or n.keywords:
                return [(F(1), {("sym", S(n)): F(1)})]
            return [(F(1), {("call", short, args): F(1)})]
        return [(F(1), {("sym", S(n)): F(1)})]

    def norm_terms(terms):
        acc = {}
        for c_, p in terms:
            key = tuple(sorted(p.items(), key=repr))
            acc[key] = acc.get(key, F(0)) + c_
        return tuple(sorted(((c_, k) for k, c_ in acc.items() if c_ != 0), key=repr))

    def as_atom(terms):
        return finish(terms)

    def finish(terms):
        nt = norm_terms(terms)
        if len(nt) == 1:
            c_, k = nt[0]
            return ("prod", c_, k)
        return ("sum", nt)

    return finish(lift(node))


def canon_of(text: str, **kw):
    return canon_expr(ast.parse(text, mode="eval").body, **kw)


def canon_str(form) -> str:
    """human-readable rendering of a canonical form (for messages)"""
    def atom(a):
        if a[0] == "sym":
            return a[1]
        if a[0] == "call":
            return "%s(%s)" % (a[1], ", ".join(canon_str(x) for x in a[2]))
        if a[0] == "pow":
            return "(%s)**(%s)" % (canon_str(a[1]), canon_str(a[2]))
        if a[0] == "cmp":
            return "(%s %s %s)" % (canon_str(a[2]), {"Lt": "<", "LtE": "<=", "Eq": "==", "NotEq": "!="}.get(a[1], a[1]), canon_str(a[3]))
        if a[0] == "bool":
            return "(" + (" %s " % a[1].lower()).join(canon_str(x) for x in a[2]) + ")"
        if a[0] == "not":
            return "not %s" % canon_str(a[1])
        if a[0] == "ifexp":
            return "(%s if %s else %s)" % (canon_str(a[2]), canon_str(a[1]), canon_str(a[3]))
        return "(%s)" % canon_str(a)

    def prod(c, k):
        parts = [] if (c == 1 and k) else [str(c) if c.denominator == 1 else "%g" % float(c)]
        for a, e in k:
            parts.append(atom(a) if e == 1 else "%s**%s" % (atom(a), e))
        return "*".join(parts)
    if form[0] == "prod":
        return prod(form[1], form[2])
    return " + ".join(prod(c, k) for c, k in form[1])
