"""Rename the locals of a function apart by def-use web (a structured-program version of SSA's web splitting).

A source name that is bound several times often stands for several independent variables (`uk` set in one branch, set again in a later
loop; `k` the target of two loops one after the other).  Which of them share a *name* is a spelling choice of the author, so the normal
form (nf.py) must not depend on it.  Reaching definitions are computed on the statement CFG (cfg.py); two bindings belong to one web when
some read may see either of them; each web whose bindings are all inside the function (no parameter / unbound / global value reaches its
reads) gets a name of its own.  The analysis over-approximates the paths (an exception may leave any statement of a `try` body before or
after its binding took effect), which can only merge webs, never separate bindings that a read could confuse.

Not touched: names that occur inside a nested function, class or lambda (closures see a *name*, late), names declared global / nonlocal,
functions with `finally` parts or `match` statements (their exits are not modelled by cfg.py), `del`.
"""
from __future__ import annotations

import ast
import copy
from typing import Dict, List, Set, Tuple

from . import cfg as cfgmod

ENTRY_DEF = -1


def _comp_aware_names(node, skip_nested=True):
    """(Name node, is_own_scope) for the Name nodes of an expression/statement that belong to the function's own scope
    (comprehension variables are left out inside their comprehension)"""
    out = []

    def rec(n, bound):
        if isinstance(n, ast.Name):
            if n.id not in bound:
                out.append(n)
            return
        if isinstance(n, (ast.ListComp, ast.SetComp, ast.DictComp, ast.GeneratorExp)):
            b = bound
            for g in n.generators:
                rec(g.iter, b)
                b = b | {x.id for x in ast.walk(g.target) if isinstance(x, ast.Name)}
                for c in g.ifs:
                    rec(c, b)
            for part in ([n.key, n.value] if isinstance(n, ast.DictComp) else [n.elt]):
                rec(part, b)
            return
        if isinstance(n, (ast.FunctionDef, ast.AsyncFunctionDef)):
            for d in n.decorator_list:
                rec(d, bound)
            for d in list(n.args.defaults) + [d for d in n.args.kw_defaults if d is not None]:
                rec(d, bound)
            return
        if isinstance(n, ast.ClassDef):
            for d in list(n.decorator_list) + list(n.bases) + [k.value for k in n.keywords]:
                rec(d, bound)
            return
        if isinstance(n, ast.Lambda):
            for d in list(n.args.defaults) + [d for d in n.args.kw_defaults if d is not None]:
                rec(d, bound)
            return
        for ch in ast.iter_child_nodes(n):
            rec(ch, bound)
    rec(node, frozenset())
    return out


def _node_parts(node):
    """(expressions read, targets bound, extra names bound) of one CFG node"""
    k, s = node.kind, node.stmt
    if k in ("if", "while"):
        return [s.test], [], []
    if k == "for":
        return [s.iter], [s.target], []
    if k == "with":
        return [i.context_expr for i in s.items], [i.optional_vars for i in s.items if i.optional_vars is not None], []
    if k == "try":
        return [], [], []
    if isinstance(s, ast.ExceptHandler):
        return ([s.type] if s.type is not None else []), [], ([s.name] if s.name else [])
    if isinstance(s, (ast.FunctionDef, ast.AsyncFunctionDef, ast.ClassDef)):
        return [s], [], [s.name]
    if isinstance(s, (ast.Import, ast.ImportFrom)):
        return [], [], [(a.asname or a.name).split(".")[0] for a in s.names]
    return [s], [], []


def split(fn):
    """a deep copy of fn with its locals renamed apart by web (fn itself when nothing can be done)"""
    for n in ast.walk(fn):
        if isinstance(n, (ast.Global, ast.Nonlocal, ast.Delete, ast.NamedExpr)) or (isinstance(n, ast.Try) and n.finalbody) or isinstance(n, getattr(ast, "Match", ())) \
                or isinstance(n, getattr(ast, "TryStar", ())):
            return fn
    fn = copy.deepcopy(fn)

    class _Aug(ast.NodeTransformer):   # `x op= e` on a plain name is `x = x op e` (as in nf.py): the new value is a binding of its own
        def visit_AugAssign(self, node):
            if isinstance(node.target, ast.Name):
                new = ast.Assign(targets=[ast.Name(id=node.target.id, ctx=ast.Store())],
                                 value=ast.BinOp(left=ast.Name(id=node.target.id, ctx=ast.Load()), op=node.op, right=node.value))
                return ast.fix_missing_locations(ast.copy_location(new, node))
            return node

        def visit_FunctionDef(self, node):
            return node if node is not fn else self.generic_visit(node)

        def visit_Lambda(self, node):
            return node
    _Aug().visit(fn)
    # names that must keep their spelling
    keep: Set[str] = set()
    for n in ast.walk(fn):
        if n is fn:
            continue
        if isinstance(n, (ast.FunctionDef, ast.AsyncFunctionDef, ast.ClassDef, ast.Lambda)):
            for x in ast.walk(n):
                if isinstance(x, ast.Name):
                    keep.add(x.id)
                elif isinstance(x, ast.arg):
                    keep.add(x.arg)
            if not isinstance(n, ast.Lambda):
                keep.add(n.name)
    g = cfgmod.build(fn)
    # definitions
    defs_at: Dict[int, Dict[str, int]] = {}     # node -> name -> def id
    def_names: List[str] = []
    store_nodes: Dict[int, List[ast.Name]] = {}   # def id -> Name nodes (Store) to rename
    handler_defs: Dict[int, ast.ExceptHandler] = {}
    uses_at: Dict[int, List[ast.Name]] = {}
    aug: Dict[int, Set[str]] = {}

    def new_def(node_id, name):
        d = defs_at.setdefault(node_id, {})
        if name not in d:
            d[name] = len(def_names)
            def_names.append(name)
            store_nodes[d[name]] = []
        return d[name]

    for nid, node in g.nodes.items():
        if node.stmt is None:
            continue
        reads, targets, extra = _node_parts(node)
        uses_at[nid] = []
        for e in reads:
            for nm in _comp_aware_names(e):
                if isinstance(nm.ctx, ast.Store):
                    store_nodes[new_def(nid, nm.id)].append(nm)
                else:
                    uses_at[nid].append(nm)
        for t in targets:
            for nm in _comp_aware_names(t):
                if isinstance(nm.ctx, ast.Store):
                    store_nodes[new_def(nid, nm.id)].append(nm)
                else:
                    uses_at[nid].append(nm)
        for name in extra:
            did = new_def(nid, name)
            if isinstance(node.stmt, ast.ExceptHandler):
                handler_defs[did] = node.stmt
            else:
                keep.add(name)   # def / class / import names keep their spelling
        if isinstance(node.stmt, ast.AugAssign) and isinstance(node.stmt.target, ast.Name):
            aug.setdefault(nid, set()).add(node.stmt.target.id)
    names = {nm for nm in def_names if nm not in keep}
    if not names:
        return fn
    # reaching definitions: state = {name: frozenset(def ids)}
    preds: Dict[int, List[Tuple[int, str]]] = {i: [] for i in g.nodes}
    for a, outs in g.succ.items():
        for b, lab in outs:
            preds[b].append((a, lab))
    IN: Dict[int, Dict[str, Set[int]]] = {i: {} for i in g.nodes}
    OUT: Dict[int, Dict[str, Set[int]]] = {i: {} for i in g.nodes}
    OUT[g.entry] = {nm: {ENTRY_DEF} for nm in names}

    def out_for(a, lab):
        """state flowing along the edge a --lab-->"""
        node = g.nodes[a]
        if lab == "exc":
            st = {}
            for nm in names:
                st[nm] = set(IN[a].get(nm, ())) | set(OUT[a].get(nm, ()))
            return st
        if node.kind == "for" and lab != "iter":
            return IN[a]          # the target is bound on the way into the body only
        return OUT[a]

    order = sorted(g.nodes)
    changed = True
    rounds = 0
    while changed and rounds < 200:
        changed = False
        rounds += 1
        for i in order:
            if i == g.entry:
                continue
            st: Dict[str, Set[int]] = {}
            for a, lab in preds[i]:
                src = out_for(a, lab)
                for nm, ds in src.items():
                    if ds:
                        st.setdefault(nm, set()).update(ds)
            if st != IN[i]:
                IN[i] = st
                changed = True
            out = {nm: set(ds) for nm, ds in st.items()}
            for nm, did in defs_at.get(i, {}).items():
                if nm in names:
                    out[nm] = {did}
            if out != OUT[i]:
                OUT[i] = out
                changed = True
    # webs
    parent = list(range(len(def_names) + 1))   # last index stands for ENTRY_DEF

    def idx(d):
        return len(def_names) if d == ENTRY_DEF else d

    def find(x):
        while parent[x] != x:
            parent[x] = parent[parent[x]]
            x = parent[x]
        return x

    def union(a, b):
        ra, rb = find(a), find(b)
        if ra != rb:
            parent[ra] = rb

    use_web: Dict[int, int] = {}
    for nid, uses in uses_at.items():
        for nm in uses:
            if nm.id not in names:
                continue
            ds = IN[nid].get(nm.id) or {ENTRY_DEF}
            ds = list(ds)
            for d in ds[1:]:
                union(idx(ds[0]), idx(d))
            use_web[id(nm)] = idx(ds[0])
    for nid, nms in aug.items():
        for name in nms:
            if name in names:
                did = defs_at[nid][name]
                for d in (IN[nid].get(name) or {ENTRY_DEF}):
                    union(idx(did), idx(d))
    # a name read at the function's exits does not exist; nothing else to merge.  Spell the webs.
    entry_root = find(len(def_names))
    per_name: Dict[str, List[int]] = {}
    for d, nm in enumerate(def_names):
        if nm in names:
            r = find(d)
            if r not in per_name.setdefault(nm, []):
                per_name[nm].append(r)
    spelled: Dict[int, str] = {}
    for nm, roots in per_name.items():
        inner = [r for r in roots if r != find(len(def_names))]
        if len(roots) == 1:
            continue   # one web: keeps its name
        k = 0
        for r in roots:
            if r == find(len(def_names)):
                continue   # the web the incoming value belongs to keeps the name
            k += 1
            spelled[(nm, r)] = "%s\x01%d" % (nm, k)
    if not spelled:
        return fn
    for d, nm in enumerate(def_names):
        new = spelled.get((nm, find(d)))
        if new is None:
            continue
        for x in store_nodes[d]:
            x.id = new
        if d in handler_defs:
            handler_defs[d].name = new
    for nid, uses in uses_at.items():
        for x in uses:
            if id(x) in use_web:
                new = spelled.get((x.id, find(use_web[id(x)])))
                if new is not None:
                    x.id = new
    return fn
