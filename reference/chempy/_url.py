__url__ = "https://github.com/bjodah/chempy"
