# -*- coding: utf-8 -*-

from .util.pyutil import ChemPyDeprecationWarning

import warnings

from .kinetics.arrhenius import (
    arrhenius_equation,
    fit_arrhenius_equation,
    ArrheniusParam,
    ArrheniusParamWithUnits,
)


warnings.warn("use .kinetics.arrhenius instead of .arrhenius", ChemPyDeprecationWarning)
