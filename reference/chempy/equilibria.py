# -*- coding: utf-8 -*-
"""
Module collecting classes and functions for dealing with (multiphase) chemical
equilibria.

.. Note::

  This module is provisional at the moment, i.e. the API is not stable and may
  break without a deprecation cycle.

"""

import warnings

import numpy as np

from .chemistry import equilibrium_quotient, Equilibrium, Species
from .reactionsystem import ReactionSystem
from ._util import get_backend
from .util.pyutil import deprecated
from ._eqsys import EqCalcResult, NumSysLin, NumSysLog, NumSysSquare as _NumSysSquare


NumSysSquare = deprecated()(_NumSysSquare)


class EqSystem(ReactionSystem):

    _BaseReaction = Equilibrium
    _BaseSubstance = Species

    def html(self, *args, **kwargs):
        k = "color_categories"
        kwargs[k] = kwargs.get(k, False)
        return super(EqSystem, self).html(*args, **kwargs)

    def eq_constants(self, non_precip_rids=(), eq_params=None, small=0):
        if eq_params is None:
            eq_params = [eq.param for eq in self.rxns]
        return [
            small if idx in non_precip_rids else eq for idx, eq in enumerate(eq_params)
        ]

    def equilibrium_quotients(self, concs):
        stoichs = self.stoichs()
        return [equilibrium_quotient(concs, stoichs[ri, :]) for ri in range(self.nr)]

    def stoichs_constants(
        self, eq_params=None, rref=False, Matrix=None, backend=None, non_precip_rids=()
    ):
        if eq_params is None:
            eq_params = self.eq_constants()
        if rref:
            from pyneqsys.symbolic import linear_rref

            be = get_backend(backend)
            rA, rb = linear_rref(
                self.stoichs(non_precip_rids), list(map(be.log, eq_params)), Matrix
            )
            return rA.tolist(), list(map(be.exp, rb))
        else:
            return (self.stoichs(non_precip_rids), eq_params)

    def composition_conservation(self, concs, init_concs):
        composition_vecs, comp_keys = self.composition_balance_vectors()
        A = np.array(composition_vecs)
        return (
            comp_keys,
            np.dot(A, self.as_per_substance_array(concs).T),
            np.dot(A, self.as_per_substance_array(init_concs).T),
        )

    def other_phase_species_idxs(self, phase_idx=0):
        return [
            idx
            for idx, s in enumerate(self.substances.values())
            if s.phase_idx != phase_idx
        ]

    @property
    @deprecated(
        last_supported_version="0.3.1",
        will_be_missing_in="0.8.0",
        use_instead=other_phase_species_idxs,
    )
    def precipitate_substance_idxs(self):
        return [idx for idx, s in enumerate(self.substances.values()) if s.precipitate]

    def phase_transfer_reaction_idxs(self, phase_idx=0):
        return [
            idx
            for idx, rxn in enumerate(self.rxns)
            if rxn.has_precipitates(self.substances)
        ]

    @property
    @deprecated(
        last_supported_version="0.3.1",
        will_be_missing_in="0.8.0",
        use_instead=phase_transfer_reaction_idxs,
    )
    def precipitate_rxn_idxs(self):
        return [
            idx
            for idx, rxn in enumerate(self.rxns)
            if rxn.has_precipitates(self.substances)
        ]

    def dissolved(self, concs):
        """Return dissolved concentrations"""
        new_concs = concs.copy()
        for r in self.rxns:
            if r.has_precipitates(self.substances):
                net_stoich = np.asarray(r.net_stoich(self.substances))
                s_net, s_stoich, s_idx = r.precipitate_stoich(self.substances)
                new_concs -= new_concs[s_idx] / s_stoich * net_stoich
        return new_concs

    def _fw_cond_factory(self, ri, rtol=1e-14):
        rxn = self.rxns[ri]

        def fw_cond(x, p):
            precip_stoich_coeff, precip_idx = rxn.precipitate_stoich(self.substances)[
                1:3
            ]
            q = rxn.Q(self.substances, self.dissolved(x))
            k = rxn.equilibrium_constant()
            if precip_stoich_coeff > 0:
                return q * (1 + rtol) < k
            elif precip_stoich_coeff < 0:
                return q > k * (1 + rtol)
            else:
                raise NotImplementedError

        return fw_cond

    def _bw_cond_factory(self, ri, small):
        rxn = self.rxns[ri]

        def bw_cond(x, p):
            precipitate_idx = rxn.precipitate_stoich(self.substances)[2]
            if x[precipitate_idx] < small:
                return False
            else:
                return True

        return bw_cond

    def _SymbolicSys_from_NumSys(
        self, NS, conds, rref_equil, rref_preserv, new_eq_params=True
    ):
        from pyneqsys.symbolic import SymbolicSys
        import sympy as sp

        ns = NS(
            self,
            backend=sp,
            rref_equil=rref_equil,
            rref_preserv=rref_preserv,
            precipitates=conds,
            new_eq_params=new_eq_params,
        )
        symb_kw = {}
        if ns.pre_processor is not None:
            symb_kw["pre_processors"] = [ns.pre_processor]
        if ns.post_processor is not None:
            symb_kw["post_processors"] = [ns.post_processor]
        if ns.internal_x0_cb is not None:
            symb_kw["internal_x0_cb"] = ns.internal_x0_cb
        return SymbolicSys.from_callback(
            ns.f,
            self.ns,
            nparams=self.ns + (self.nr if new_eq_params else 0),
            **symb_kw
        )

    def get_neqsys_conditional_chained(
        self, rref_equil=False, rref_preserv=False, NumSys=NumSysLin, **kwargs
    ):
        from pyneqsys import ConditionalNeqSys, ChainedNeqSys

        def factory(conds):
            return ChainedNeqSys(
                [
                    self._SymbolicSys_from_NumSys(
                        NS, conds, rref_equil, rref_preserv, **kwargs
                    )
                    for NS in NumSys
                ]
            )

        cond_cbs = [
            (self._fw_cond_factory(ri), self._bw_cond_factory(ri, NumSys[0].small))
            for ri in self.phase_transfer_reaction_idxs()
        ]
        return ConditionalNeqSys(cond_cbs, factory)

    def get_neqsys_chained_conditional(
        self, rref_equil=False, rref_preserv=False, NumSys=NumSysLin, **kwargs
    ):
        from pyneqsys import ConditionalNeqSys, ChainedNeqSys

        def mk_factory(NS):
            def factory(conds):
                return self._SymbolicSys_from_NumSys(
                    NS, conds, rref_equil, rref_preserv, **kwargs
                )

            return factory

        return ChainedNeqSys(
            [
                ConditionalNeqSys(
                    [
                        (self._fw_cond_factory(ri), self._bw_cond_factory(ri, NS.small))
                        for ri in self.phase_transfer_reaction_idxs()
                    ],
                    mk_factory(NS),
                )
                for NS in NumSys
            ]
        )

    def get_neqsys_static_conditions(
        self,
        rref_equil=False,
        rref_preserv=False,
        NumSys=(NumSysLin,),
        precipitates=None,
        **kwargs
    ):
        if precipitates is None:
            precipitates = (False,) * len(self.phase_transfer_reaction_idxs())
        from pyneqsys import ChainedNeqSys

        return ChainedNeqSys(
            [
                self._SymbolicSys_from_NumSys(
                    NS, precipitates, rref_equil, rref_preserv, **kwargs
                )
                for NS in NumSys
            ]
        )

    def get_neqsys(self, neqsys_type, NumSys=NumSysLin, **kwargs):
        new_kw = {"rref_equil": False, "rref_preserv": False}
        if neqsys_type == "static_conditions":
            new_kw["precipitates"] = None
        for k in new_kw:
            if k in kwargs:
                new_kw[k] = kwargs.pop(k)

        try:
            NumSys[0]
        except TypeError:
            new_kw["NumSys"] = (NumSys,)
        else:
            new_kw["NumSys"] = NumSys

        return getattr(self, "get_neqsys_" + neqsys_type)(**new_kw)

    def non_precip_rids(self, precipitates):
        return [
            idx
            for idx, precip in zip(self.phase_transfer_reaction_idxs(), precipitates)
            if not precip
        ]

    def _result_is_sane(self, init_concs, x, rtol=1e-9):
        sc_upper_bounds = np.array(self.upper_conc_bounds(init_concs))
        neg_conc, too_much = np.any(x < 0), np.any(x > sc_upper_bounds * (1 + rtol))
        if neg_conc or too_much:
            if neg_conc:
                warnings.warn("Negative concentration")
            if too_much:
                warnings.warn("Too much of at least one component")
            return False
        return True

    def _solve(
        self,
        init_concs,
        x0=None,
        NumSys=(NumSysLog, NumSysLin),
        neqsys="chained_conditional",
        **kwargs
    ):
        if isinstance(neqsys, str):
            neqsys = self.get_neqsys(
                neqsys,
                NumSys=NumSys,
                rref_equil=kwargs.pop("rref_equil", False),
                rref_preserv=kwargs.pop("rref_preserv", False),
                precipitates=kwargs.pop("precipitates", None),
            )
        if x0 is None:
            x0 = init_concs
        params = np.concatenate(
            (init_concs, [float(elem) for elem in self.eq_constants()])
        )
        x, sol = neqsys.solve(x0, params, **kwargs)
        if not sol["success"]:
            warnings.warn("Root-finding indicated as failed by solver.")
        sane = self._result_is_sane(init_concs, x)
        return x, sol, sane

    def solve(self, init_concs, varied=None, **kwargs):
        results = EqCalcResult(self, init_concs, varied)
        results.solve()
        return results

    def root(
        self,
        init_concs,
        x0=None,
        neqsys=None,
        NumSys=NumSysLog,
        neqsys_type="chained_conditional",
        **kwargs
    ):
        init_concs = self.as_per_substance_array(init_concs)
        params = np.concatenate(
            (init_concs, [float(elem) for elem in self.eq_constants()])
        )
        if neqsys is None:
            neqsys = self.get_neqsys(
                neqsys_type,
                NumSys=NumSys,
                rref_equil=kwargs.pop("rref_equil", False),
                rref_preserv=kwargs.pop("rref_preserv", False),
                precipitates=kwargs.pop("precipitates", None),
            )
        if x0 is None:
            x0 = init_concs
        x, sol = neqsys.solve(x0, params, **kwargs)
        if not sol["success"]:
            warnings.warn("Root finding indicated as failed by solver.")
        sane = self._result_is_sane(init_concs, x)
        return x, sol, sane

    @staticmethod
    def _get_default_plot_ax(subplot_kwargs=None):
        import matplotlib.pyplot as plt

        if subplot_kwargs is None:
            subplot_kwargs = dict(xscale="log", yscale="log")
        return plt.subplot(1, 1, 1, **subplot_kwargs)

    def substance_labels(self, latex=False):
        if latex:
            result = ["$" + s.latex_name + "$" for s in self.substances.values()]
            return result
        else:
            return [s.name for s in self.substances.values()]

    def roots(
        self,
        init_concs,
        varied_data,
        varied,
        x0=None,
        NumSys=NumSysLog,
        plot_kwargs=None,
        neqsys_type="chained_conditional",
        **kwargs
    ):
        """
        Parameters
        ----------
        init_concs : array or dict
        varied_data : array
        varied_idx : int or str
        x0 : array
        NumSys : _NumSys subclass
            See :class:`NumSysLin`, :class:`NumSysLog`, etc.
        plot_kwargs : dict
            See py:meth:`pyneqsys.NeqSys.solve`. Two additional keys
            are intercepted here:
                latex_names: bool (default: False)
                conc_unit_str: str (default: 'M')
        neqsys_type : str
            what method to use for NeqSys construction (get_neqsys_*)
        \\*\\*kwargs :
            Keyword arguments passed on to py:meth:`pyneqsys.NeqSys.solve_series`.

        """
        _plot = plot_kwargs is not None
        if _plot:
            latex_names = plot_kwargs.pop("latex_names", False)
            conc_unit_str = plot_kwargs.pop("conc_unit_str", "M")
            if "ax" not in plot_kwargs:
                plot_kwargs["ax"] = self._get_default_plot_ax()

        init_concs = self.as_per_substance_array(init_concs)
        neqsys = self.get_neqsys(
            neqsys_type,
            NumSys=NumSys,
            rref_equil=kwargs.pop("rref_equil", False),
            rref_preserv=kwargs.pop("rref_preserv", False),
            precipitates=kwargs.pop("precipitates", None),
        )
        if x0 is None:
            x0 = init_concs

        if _plot:
            cb = neqsys.solve_and_plot_series
            if "plot_kwargs" not in kwargs:
                kwargs["plot_kwargs"] = plot_kwargs
            if "labels" not in kwargs["plot_kwargs"]:
                kwargs["plot_kwargs"]["labels"] = self.substance_labels(latex_names)
            if "substances" in plot_kwargs:
                if "indices" in plot_kwargs:
                    raise ValueError("Now I am confused..")
                kwargs["plot_kwargs"]["indices"] = map(
                    self.as_substance_index, plot_kwargs.pop("substances")
                )
                print(kwargs["plot_kwargs"]["indices"])
        else:
            cb = neqsys.solve_series

        params = np.concatenate((init_concs, self.eq_constants()))
        xvecs, info_dicts = cb(
            x0,
            params,
            varied_data,
            self.as_substance_index(varied),
            propagate=False,
            **kwargs
        )
        sanity = [self._result_is_sane(init_concs, x) for x in xvecs]

        if _plot:
            import matplotlib.pyplot as plt
            from pyneqsys.plotting import mpl_outside_legend

            mpl_outside_legend(plt.gca())
            varied_subst = self.substances[varied]
            xlbl = (
                "$[" + varied_subst.latex_name + "]_0$"
                if latex_names
                else str(varied_subst)
            )
            plt.gca().set_xlabel(xlbl + " / " + conc_unit_str)
            plt.gca().set_ylabel("Concentration / " + conc_unit_str)

        return xvecs, info_dicts, sanity

    def plot_errors(
        self,
        concs,
        init_concs,
        varied_data,
        varied,
        axes=None,
        compositions=True,
        Q=True,
        subplot_kwargs=None,
    ):
        if axes is None:
            import matplotlib.pyplot as plt

            if subplot_kwargs is None:
                subplot_kwargs = dict(xscale="log")
            fig, axes = plt.subplots(1, 2, figsize=(10, 4), subplot_kw=subplot_kwargs)
        varied_idx = self.as_substance_index(varied)
        ls, c = "- -- : -.".split(), "krgbcmy"
        all_inits = np.tile(
            self.as_per_substance_array(init_concs), (len(varied_data), 1)
        )
        all_inits[:, varied_idx] = varied_data
        if compositions:
            cmp_nrs, m1, m2 = self.composition_conservation(concs, all_inits)
            for cidx, (cmp_nr, a1, a2) in enumerate(zip(cmp_nrs, m1, m2)):
                axes[0].plot(
                    concs[:, varied_idx],
                    a1 - a2,
                    label="Comp " + str(cmp_nr),
                    ls=ls[cidx % len(ls)],
                    c=c[cidx % len(c)],
                )
                axes[1].plot(
                    concs[:, varied_idx],
                    (a1 - a2) / np.abs(a2),
                    label="Comp " + str(cmp_nr),
                    ls=ls[cidx % len(ls)],
                    c=c[cidx % len(c)],
                )

        if Q:
            # TODO: handle precipitate phases in plotting Q error
            qs = self.equilibrium_quotients(concs)
            ks = [rxn.param for rxn in self.rxns]
            for idx, (q, k) in enumerate(zip(qs, ks)):
                axes[0].plot(
                    concs[:, varied_idx],
                    q - k,
                    label="K R:" + str(idx),
                    ls=ls[(idx + cidx) % len(ls)],
                    c=c[(idx + cidx) % len(c)],
                )
                axes[1].plot(
                    concs[:, varied_idx],
                    (q - k) / k,
                    label="K R:" + str(idx),
                    ls=ls[(idx + cidx) % len(ls)],
                    c=c[(idx + cidx) % len(c)],
                )

        from pyneqsys.plotting import mpl_outside_legend

        mpl_outside_legend(axes[0])
        mpl_outside_legend(axes[1])
        axes[0].set_title("Absolute errors")
        axes[1].set_title("Relative errors")
