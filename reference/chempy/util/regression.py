# -*- coding: utf-8 -*-
"""
Contains rudimentary tools for regression: (iteratively) (weighted) least squares
and functions for plotting the fit from the regression analysis.
"""


try:
    import numpy as np
except ImportError:
    np = None

from ..units import latex_of_unit, is_unitless, to_unitless, unit_of
from ..printing import number_to_scientific_latex


def plot_fit(
    x,
    y,
    beta,
    yerr=None,
    vcv_beta=None,
    r2=None,
    kw_data=None,
    kw_fit=None,
    fit_label_cb=None,
    ax=True,
    x_unit=1,
    y_unit=1,
    nsigma=1,
):
    """Plot the result of a fit

    Parameters
    ----------
    x : array_like
    y : array_like
    beta : array_like
    yerr : array_like
    vcv_beta : array_like
    kw_data : dict
        Keyword arguments to ``plot`` for x, y data
    kw_fit : dict
        Keyword arguments to ``plot`` for fitted data
    fit_label_cb: callable:
        signature (beta, variance_beta, r2) -> str
    ax : matplotlib.axes.Axes
        Alternatively ``True`` or ``None``
    x_unit : unit
    y_unit : unit
    nsigma : int
        Multiplier for errorbars when plotting.

    """
    x_ul = to_unitless(x, x_unit)
    y_ul = to_unitless(y, y_unit)
    if ax is True:
        import matplotlib.pyplot as plt

        ax = plt.subplot(1, 1, 1)
    kw_data, kw_fit = kw_data or {}, kw_fit or {}
    if fit_label_cb is not None and "label" not in kw_fit:
        kw_fit["label"] = fit_label_cb(beta, vcv_beta, r2)

    if yerr is None:
        ax.plot(x_ul, y_ul, **kw_data)
    else:
        ax.errorbar(x_ul, y_ul, yerr=to_unitless(yerr * nsigma, y_unit), **kw_data)

    xlim = [np.min(x_ul), np.max(x_ul)]
    if "marker" not in kw_fit:
        kw_fit["marker"] = "None"

    beta_ul = [to_unitless(elem, y_unit * x_unit ** -i) for i, elem in enumerate(beta)]
    yfit_ul = [sum([b * x_elem ** i for i, b in enumerate(beta_ul)]) for x_elem in xlim]

    ax.plot(xlim, yfit_ul, **kw_fit)
    if "label" in kw_fit:
        ax.legend(loc="best")

    if is_unitless(x_unit):
        ax.set_xlabel("$x$")
    else:
        ax.set_xlabel("$x / %s$" % latex_of_unit(x_unit))

    if is_unitless(y_unit):
        ax.set_ylabel("$y$")
    else:
        ax.set_ylabel("$y / %s$" % latex_of_unit(y_unit))

    return ax


def _beta_tup(beta, x_unit, y_unit):
    return tuple(coeff * y_unit / x_unit ** i for i, coeff in enumerate(beta))


def plot_least_squares_fit(
    x, y, beta_vcv_r2, yerr=None, plot_cb=None, plot_cb_kwargs=None, x_unit=1, y_unit=1
):
    """Performs Least-squares fit and plots data and fitted line

    Parameters
    ----------
    x : array_like
    y : array_like
    beta_vcv_r2 : tuple
        Result from :func:`least_squares_fit`.
    plot_cb : callable
        When ``None``: uses :func:`plot_fit`, when callable:
        signature ``(x, y, beta, yerr=None, fit_label_cb=lambda beta, vcv, r2: 'None') -> str``.
    plot_cb_kwargs: dict, optional
        Keyword arguments passed on to ``plot_cb`` (see :func:`plot_fit` for list of
        expected kwargs). If ``plot_cb`` is ``True`` it will be populated with defaults
        (kw_data, fit_label_cb, x_unit, y_unit).

    """
    plot_cb_kwargs = plot_cb_kwargs or {}
    if plot_cb is None:
        kw_data = plot_cb_kwargs.get("kw_data", {})
        if "marker" not in kw_data and len(x) < 40:
            kw_data["marker"] = "d"
        if "ls" not in kw_data and "linestyle" not in kw_data and len(x) < 40:
            kw_data["ls"] = "None"
        plot_cb_kwargs["kw_data"] = kw_data
        if "fit_label_cb" not in plot_cb_kwargs:
            plot_cb_kwargs["fit_label_cb"] = lambda b, v, r2: (
                "$y(x) = %s + %s \\cdot x$" % tuple(map(number_to_scientific_latex, b))
            )
        plot_cb = plot_fit
    if "x_unit" not in plot_cb_kwargs:
        plot_cb_kwargs["x_unit"] = x_unit
    if "y_unit" not in plot_cb_kwargs:
        plot_cb_kwargs["y_unit"] = y_unit

    plot_cb(x, y, beta_vcv_r2[0], yerr, **plot_cb_kwargs)


def least_squares_units(x, y, w=1):
    """Units-aware least-squares (w or w/o weights) fit to data series.

    Parameters
    ----------
    x : array_like
    y : array_like
    w : array_like, optional

    """
    x_unit, y_unit = unit_of(x), unit_of(y)
    integer_one = 1
    explicit_errors = w is not integer_one
    if explicit_errors:
        if unit_of(w) == y_unit ** -2:
            _w = to_unitless(w, y_unit ** -2)
        elif unit_of(w) == unit_of(1):
            _w = w
        else:
            raise ValueError("Incompatible units in y and w")
    else:
        _w = 1
    _x = to_unitless(x, x_unit)
    _y = to_unitless(y, y_unit)
    beta, vcv, r2 = least_squares(_x, _y, _w)
    beta_tup = _beta_tup(beta, x_unit, y_unit)
    return beta_tup, vcv, float(r2)


def least_squares(x, y, w=1):  # w == 1 => OLS, w != 1 => WLS
    """Least-squares (w or w/o weights) fit to data series.

    Linear regression (unweighted or weighted).

    Parameters
    ----------
    x : array_like
    y : array_like
    w : array_like, optional

    Returns
    -------
    length 2 tuple : pair of parameter estimates (intercept and slope)
    2x2 array : variance-covariance matrix
    float : R-squared (goodness of fit)

    Examples
    --------
    >>> import numpy as np
    >>> beta, vcv, R2 = least_squares([0, 1, 2], [1, 3, 5])
    >>> all(abs(beta - np.array([1, 2])) < 1e-14), R2 == 1, (abs(vcv) < 1e-14).all()
    (True, True, True)
    >>> b1, v1, r2_1 = least_squares([1, 2, 3], [0, 1, 4], [1, 1, 1])
    >>> b2, v2, r2_2 = least_squares([1, 2, 3], [0, 1, 4], [1, 1, .2])
    >>> abs(b2[1] - 1) < abs(b1[1] - 1)
    True

    References
    ----------
    Wikipedia & standard texts on least squares method.
    Comment regarding R2 in WLS:
        Willett, John B., and Judith D. Singer. "Another cautionary note about R 2:
        Its use in weighted least-squares regression analysis."
        The American Statistician 42.3 (1988): 236-238.

    """
    sqrtw = np.sqrt(w)
    Y = np.asarray(y, dtype=np.float64) * sqrtw
    _x = np.asarray(x)
    X = np.ones((_x.size, 2))
    X[:, 1] = x
    if hasattr(sqrtw, "ndim") and sqrtw.ndim == 1:
        sqrtw = sqrtw.reshape((sqrtw.size, 1))
    X *= sqrtw

    beta = np.linalg.lstsq(X, Y, rcond=2e-16 * _x.size)[0]
    eps = X.dot(beta) - Y
    SSR = eps.T.dot(eps)  # sum of squared residuals
    vcv = SSR / (_x.size - 2) * np.linalg.inv(X.T.dot(X))
    TSS = np.sum(np.square(Y - np.mean(Y)))  # total sum of squares
    R2 = 1 - SSR / TSS
    return beta, vcv, R2


def irls(x, y, w_cb=lambda x, y, b, c: x ** 0, itermax=16, rmsdwtol=1e-8):
    """Iteratively reweighted least squares

    Parameters
    ----------
    x : array_like
    y : array_like
    w_cb : callbable
        Weight callback, signature ``(x, y, beta, cov) -> weight``.
        Predefined:
            - ``irls.ones``: unit weights (default)
            - ``irls.exp``: :math:`\\mathrm{e}^{-\\beta_2 x}`
            - ``irls.gaussian``: :math:`\\mathrm{e}^{-\\beta_2 x^2}`
            - ``irls.abs_residuals``: :math:`\\lvert \\beta_1 + \\beta_2 x - y \\rvert`
    itermax : int
    rmsdwtol : float
    plot_cb : callble
        See :func:`least_squares`
    plot_cb_kwargs : dict
        See :func:`least_squares`

    Returns
    -------
    beta : length-2 array
        parameters
    cov : 2x2 array
        variance-covariance matrix
    info : dict
        Contains
           - success : bool
           - niter : int
           - weights : list of weighting arrays

    # Examples
    # --------
    # beta, cov, info = irls([1, 2, 3], [3, 2.5, 2.1], irls.abs_residuals)

    """
    if itermax < 1:
        raise ValueError("itermax must be >= 1")
    weights = []
    x, y = np.asarray(x), np.asarray(y)
    w = np.ones_like(x)
    rmsdw = np.inf
    ii = 0
    while rmsdw > rmsdwtol and ii < itermax:
        weights.append(w)
        beta, cov, r2 = least_squares(x, y, w)
        old_w = w.copy()
        w = w_cb(x, y, beta, cov)
        rmsdw = np.sqrt(np.mean(np.square(w - old_w)))
        ii += 1

    return beta, cov, {"weights": weights, "niter": ii, "success": ii < itermax}


irls.ones = lambda x, y, b, c: 1

if np is not None:
    irls.exp = lambda x, y, b, c: np.exp(b[1] * x)
    irls.gaussian = lambda x, y, b, c: np.exp(-((b[1] * x) ** 2))  # gaussian weighting
    irls.abs_residuals = lambda x, y, b, c: np.abs(b[0] + b[1] * x - y)


def irls_units(x, y, **kwargs):
    """Units aware version of :func:`irls`

    Parameters
    ----------
    x : array_like
    y : array_like
    \\*\\*kwargs
        Keyword arguments passed on to :func:`irls`

    """
    x_unit, y_unit = unit_of(x), unit_of(y)
    x_ul, y_ul = to_unitless(x, x_unit), to_unitless(y, y_unit)
    beta, vcv, info = irls(x_ul, y_ul, **kwargs)
    beta_tup = _beta_tup(beta, x_unit, y_unit)
    return beta_tup, vcv, info


def plot_avg_params(
    opt_params,
    cov_params,
    avg_params_result,
    label_cb=None,
    ax=None,
    title=False,
    xlabel=False,
    ylabel=False,
    flip=False,
    nsigma=1,
):
    """Calculates the average parameters from a set of regression parameters

    Parameters
    ----------
    opt_params : array_like
        Of shape ``(nfits, nparams)``.
    cov_params : array_like
        of shape (nfits, nparams, nparams)
    avg_params_result : length-2 tuple
       Result from :func:`avg_parrams`.
    label_cb : callable
        signature (beta, variance_beta) -> str
    ax : matplotlib.axes.Axes
    title : bool or str
    xlabel : bool or str
    ylabel : bool or str
    flip : bool
        for plotting: (x, y) -> beta1, beta0
    nsigma : int
        Multiplier for error bars

    Returns
    -------
    avg_beta: weighted average of parameters
    var_avg_beta: variance-covariance matrix

    """
    avg_beta, var_avg_beta = avg_params_result
    import matplotlib.pyplot as plt

    if label_cb is not None:
        lbl = label_cb(avg_beta, var_avg_beta)
    else:
        lbl = None
    if ax is None:
        ax = plt.subplot(1, 1, 1)
    xidx, yidx = (1, 0) if flip else (0, 1)
    opt_params = np.asarray(opt_params)
    cov_params = np.asarray(cov_params)
    var_beta = np.vstack((cov_params[:, 0, 0], cov_params[:, 1, 1])).T
    ax.errorbar(
        opt_params[:, xidx],
        opt_params[:, yidx],
        marker="s",
        ls="None",
        xerr=nsigma * var_beta[:, xidx] ** 0.5,
        yerr=nsigma * var_beta[:, yidx] ** 0.5,
    )
    if xlabel:
        if xlabel is True:
            xlabel = r"$\beta_%d$" % xidx
        ax.set_xlabel(xlabel)
    if ylabel:
        if ylabel is True:
            xlabel = r"$\beta_%d$" % yidx
        ax.set_ylabel(ylabel)
    if title:
        if title is True:
            title = r"$y(x) = \beta_0 + \beta_1 \cdot x$"
        ax.set_title(title)
    ax.errorbar(
        avg_beta[xidx],
        avg_beta[yidx],
        xerr=nsigma * var_avg_beta[xidx] ** 0.5,
        yerr=nsigma * var_avg_beta[yidx] ** 0.5,
        marker="o",
        c="r",
        linewidth=2,
        markersize=10,
        label=lbl,
    )
    ax.legend(numpoints=1)


def avg_params(opt_params, cov_params):
    """Calculates the average parameters from a set of regression parameters.

    Parameters
    ----------
    opt_params : array_like
        of shape (nfits, nparams)
    cov_params : array_like
        of shape (nfits, nparams, nparams)

    Returns
    -------
    avg_beta: weighted average of parameters
    var_avg_beta: variance-covariance matrix

    """
    opt_params = np.asarray(opt_params)
    cov_params = np.asarray(cov_params)
    var_beta = np.vstack((cov_params[:, 0, 0], cov_params[:, 1, 1])).T
    avg_beta, sum_of_weights = np.average(
        opt_params, axis=0, weights=1 / var_beta, returned=True
    )
    var_avg_beta = np.sum(np.square(opt_params - avg_beta) / var_beta, axis=0) / (
        (avg_beta.shape[0] - 1) * sum_of_weights
    )
    return avg_beta, var_avg_beta
