# -*- coding: utf-8 -*-
"""
This package collects utility functions used throughout the ``ChemPy`` package.
"""

from .pyutil import NoConvergence
