from contextlib import contextmanager
import os
import shutil
import sys
import time
import logging
import inspect
import pprint
import subprocess
import textwrap


class Echo:
    """Context maganger for echoing variable assignments (in CPython)"""

    def __init__(self, msg, indent="  "):
        self.msg = msg
        self.indent = indent
        self.parent_frame = inspect.currentframe().f_back

    def __enter__(self):
        print(self.msg)
        self.locals_on_entry = self.parent_frame.f_locals.copy()

    def __exit__(self, exc_t, exc_v, tb):
        new_locals = dict(
            (k, v)
            for k, v in self.parent_frame.f_locals.items()
            if k not in self.locals_on_entry
        )
        print(textwrap.indent(pprint.pformat(new_locals), self.indent))


class Notify:
    def __init__(self, msg=lambda t: "Job finished in %.1f seconds" % t):
        self.msg = msg
        self.t0 = time.time()

    def __enter__(self):
        pass

    def notify(self, title, message):
        if os.environ.get("DISPLAY", ""):
            subprocess.call(["notify-send", title, message])
        else:
            print(title)
            print(message)

    def __exit__(self, exc_t, exc_v, tb):
        if exc_t is None:
            title = "Success"
        else:
            title = "Failure"
        self.notify(title, self.msg(time.time() - self.t0))


class c:

    ok = "\033[92m"  # green
    fail = "\033[91m"  # red
    endc = "\033[0m"  # reset


class Timed:
    """Utility function for timing portions of your python script

    Parameters
    ----------
    msg : str
    timer : callable
        You can switch to e.g. ``time.process_time`` but note that if other
        programs are called from e.g. ``subprocess.Popen`` the time spent
        in those subprocesses will not be included.

    Examples
    --------
    >>> t = Timed("Counting stars...").tic(); stars.count(); t.toc_and_print()  # doctest: +SKIP
    Counting stars...                                          (42.0 s) [  ok]
    >>> with Timed("Counting sheep..."):  # doctest: +SKIP
    ...     n_sheep = animals.count('sheep')
    ...
    Counting sheep...                                          (17.2 s) [  ok]

    """

    counting = False

    def __init__(self, msg=None, timer=time.time, fmt_s=".1f", out=sys.stdout):
        self.msg = msg
        self.out = out
        self.fmt_s = fmt_s
        sys.stdout.flush()
        self.timer = timer

    def tic(self):
        if self.msg is not None:
            self.out.write(self.msg)
            self.out.flush()
        self.counting = True
        self.t = self.timer()
        return self  # Allows t = Timed().tic(); integrals.calc(); t = t.toc()

    def toc(self, ok=True):
        if self.counting:
            t = self.timer() - self.t
            if self.msg is not None:
                if ok:
                    status = "ok"
                    color = c.ok
                else:
                    status = "error"
                    color = c.fail
                self.out.write(
                    "%{}s\n".format(shutil.get_terminal_size()[0] - len(self.msg))
                    % (
                        "(%{fmt_s} s) [{c}%5s{r}]".format(
                            fmt_s=self.fmt_s, c=color, r=c.endc
                        )
                        % (t, status)
                    )
                )
                self.out.flush()
            return t
        else:
            raise ValueError("Not counting, did you forget to call ``.tic()`` method?")

    def __enter__(self):
        self.tic()

    def __exit__(self, exc_type, exc_value, traceback):
        self.toc(not exc_type)


@contextmanager
def limit_logging(max_lvl=logging.CRITICAL):
    """Contextmanager for silencing logging messages.

    Examples
    --------
    >>> with limit_logging():
    ...     logger.info("you won't see this...")  # doctest: +SKIP

    """
    _ori = logging.root.manager.disable
    logging.disable(max_lvl)
    try:
        yield
    finally:
        logging.disable(_ori)
