# -*- coding: utf-8 -*-

from collections import defaultdict
from itertools import chain


def _imul(d1, d2):
    if hasattr(d2, "keys"):
        for k in set(chain(d1.keys(), d2.keys())):
            d1[k] = d1[k] * d2[k]
    else:
        for k in d1:
            d1[k] *= d2


def _itruediv(d1, d2):
    if hasattr(d2, "keys"):
        for k in set(chain(d1.keys(), d2.keys())):
            d1[k] = d1[k] / d2[k]
    else:
        for k in d1:
            d1[k] /= d2


class ArithmeticDict(defaultdict):
    """A dictionary which supports arithmetic

    Subclassed from defaultdict, with support for addition, subtraction,
    multiplication and division. If other term/factor has a :meth:`keys` method
    the arithmetic are performed on a key per key basis. If :meth:`keys` is
    missing, the operation is broadcasted onto all values.
    Nonexisting keys are interpreted to signal a zero.

    Notes
    -----
    ``__eq__`` ignores values equal to ``self.default_factory()``

    Examples
    --------
    >>> d1 = ArithmeticDict(float, {'a': 2.0, 'b': 3.0})
    >>> d2 = ArithmeticDict(float, {'b': 5.0, 'c': 7.0})
    >>> (d1 + d2) == {'a': 2., 'b': 8., 'c': 7., 'd': 0.}
    True
    >>> (d1 * d1) == {'a': 4.0, 'b': 9.0, 'z': 0}
    True
    >>> (d1 * d2) == {'b': 15}
    True
    >>> d1*2 == {'a': 4, 'b': 6}
    True
    >>> (d1 / {'a': 2, 'b': 11})['b'] == 3./11
    True
    >>> d2/3 == {'b': 5./3, 'c': 7./3}
    True

    """

    def copy(self):
        return self.__class__(self.default_factory, self.items())

    def __iadd__(self, other):
        try:
            for k, v in other.items():
                self[k] += v
        except AttributeError:
            for k in self:
                self[k] += other
        return self

    def __isub__(self, other):
        try:
            for k, v in other.items():
                self[k] -= v
        except AttributeError:
            for k in self:
                self[k] -= other
        return self

    def __add__(self, other):
        a = self.copy()
        a += other
        return a

    def __sub__(self, other):
        a = self.copy()
        a -= other
        return a

    def __radd__(self, other):
        return self + other

    def __rsub__(self, other):
        return -1 * self + other

    def __imul__(self, other):
        _imul(self, other)
        return self

    def __mul__(self, other):
        a = self.copy()
        a *= other
        return a

    def __rmul__(self, other):
        return self * other

    def __itruediv__(self, other):
        _itruediv(self, other)
        return self

    def __truediv__(self, other):
        a = self.copy()
        a /= other
        return a

    def __rtruediv__(self, other):
        """other / self"""
        return self.__class__(
            self.default_factory, {k: other / v for k, v in self.items()}
        )

    def __ifloordiv__(self, other):
        if hasattr(other, "keys"):
            for k in set(chain(self.keys(), other.keys())):
                self[k] = self[k] // other[k]
        else:
            for k in self:
                self[k] //= other
        return self

    def __floordiv__(self, other):
        a = self.copy()
        a //= other
        return a

    def __rfloordiv__(self, other):
        """other // self"""
        return self.__class__(
            self.default_factory, {k: other // v for k, v in self.items()}
        )

    __idiv__ = __itruediv__  # Py2 compatibility
    __rdiv__ = __rtruediv__  # Py2 compatibility

    def __repr__(self):
        return "{}({}, {})".format(
            self.__class__.__name__, repr(self.default_factory), dict(self)
        )

    def _element_eq(self, a, b):
        return a == b

    def _discrepancy(self, other, cb):
        default = self.default_factory()
        _self = self.copy()  # getitem is not idempotent on defaultdict
        _other = other.copy()
        try:
            for k in set(chain(_self.keys(), _other.keys())):
                if not cb(_self[k], _other.get(k, default)):
                    return False
            return True
        except TypeError:
            return False

    def __eq__(self, other):
        return self._discrepancy(other, self._element_eq)

    def isclose(self, other, rtol=1e-12, atol=None):
        def _isclose(a, b):
            lim = abs(rtol * b)
            if atol is not None:
                lim += atol
            return abs((a - b)) <= lim

        return self._discrepancy(other, _isclose)

    def all_non_negative(self):
        for v in self.values():
            if v < v * 0:
                return False
        return True
