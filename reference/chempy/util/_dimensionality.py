# -*- coding: utf-8 -*-

from collections import OrderedDict
from .pyutil import defaultnamedtuple

dimension_codes = OrderedDict(
    zip(
        "length mass time current temperature amount".split(),  # not considering luminous_intensity
        "L M T I Θ N".split(),
    )
)


class DimensionalitySI(
    defaultnamedtuple(
        "DimensionalitySIBase", dimension_codes.keys(), (0,) * len(dimension_codes)
    )
):
    def __mul__(self, other):
        return self.__class__(*(x + y for x, y in zip(self, other)))

    def __truediv__(self, other):
        return self.__class__(*(x - y for x, y in zip(self, other)))

    def __pow__(self, exp):
        return self.__class__(*(x * exp for x in self))


base_registry = {name: DimensionalitySI(**{name: 1}) for name in dimension_codes}
