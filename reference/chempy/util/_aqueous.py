# -*- coding: utf-8 -*-

from itertools import chain
from .periodic import groups, symbols, names

_anions = {
    "F-": "fluoride",
    "Cl-": "chloride",
    "Br-": "bromide",
    "I-": "iodide",
    "OH-": "hydroxide",
    "CN-": "cyanide",
    "SCN-": "thiocyanate",
    "CO3-2": "carbonate",
    "C2O4-2": "oxalate",
    "HCO3-": "hydrogencarbonate",
    "NO3-": "nitrate",
    "NO2-": "nitrite",
    "PO4-3": "phospahte",
    "HPO4-2": "hydrogenphospahte",
    "H2PO4-": "dihydrogenphospahte",
    "P-3": "phosphide",
    "SO4-2": "sulphate",
    "HSO4-": "hydrogensulphate",
    "SO3-2": "sulphite",
    "HSO3-": "hydrogensulphite",
    "S-2": "sulfide",
    "ClO-": "hypochlorite",
    "ClO2-": "chlorite",
    "ClO3-": "chlorate",
    "ClO4-": "perchlorate",
    "CrO4-2": "chromate(VI)",
    "Cr2O7-2": "dichromate(VI)",
    "MnO4-2": "manganate(VI)",
    "MnO4-": "permanganate(VII)",
    "FeO4-2": "ferrate(VI)",
    "OsO4-2": "osmate(VI)",
    "Bo3-3": "borate",
    "BiO3-": "bismuthate(V)",
}
_cations = {
    "H3O+": "hydronium",
}
_cation_oxidation_states = {  # This needs to be reviewed, just from the top of my head
    "Cr": (2, 3),
    "Fe": (2, 3),
    "Mn": (2,),
    "Co": (2, 3),
    "Ni": (2, 3),
    "Cu": (1, 2, 3),
    "Ag": (1, 2),
    "Au": (3,),
    "Zn": (2,),
    "Cd": (2,),
    "Hg": (1, 2),  # Tricky: Hg2+2
    "Al": (3,),
    "Ga": (3,),
    "In": (3,),
    "Tl": (1, 3),
    "Sn": (2, 4),
    "Pb": (2, 4),
    "Bi": (3,),
    "Sb": (3,),
}

_alkali = [(symbols[n] + "+", names[n].lower()) for n in groups[1]]
_alkaline_earth = [(symbols[n] + "+2", names[n].lower()) for n in groups[2]]
_all_names = dict(chain(_alkali, _alkaline_earth, _anions.items()))


def name(ion):
    return _all_names[ion]


def ions_from_formula(formula):
    """
    This will be working examples eventually:

    #>>> ions_from_formula('NaCl') == {'Na+': 1, 'Cl-': 1}
    #True
    #>>> ions_from_formula('Fe(NO3)3') == {'Fe+3': 1, 'NO3-': 3}
    #True
    #>>> ions_from_formula('FeSO4') == {'Fe+2': 1, 'SO4-2': 1}
    #True
    #>>> ions_from_formula('(NH4)3PO4') == {'NH4+': 3, 'PO4-3': 1}
    #True
    #>>> ions_from_formula('KAl(SO4)2.11H2O') == {'K+': 1, 'Al+3': 1, 'SO4-2': 2}
    #True

    """
    pass
