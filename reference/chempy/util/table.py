# -*- coding: utf-8 -*-
"""
Convenience functions for presenting reaction systems in tables.
"""


import os
import shutil
import subprocess
import tempfile

from ..printing import latex
from ..kinetics.rates import RadiolyticBase
from ..units import to_unitless, get_derived_unit

tex_templates = {
    "document": {
        "default": r"""
\documentclass[a4paper,9pt]{article}
\pagestyle{empty}
\usepackage[paper=a4paper,margin=1cm]{geometry}
%(usepkg)s
\hypersetup{
  bookmarksnumbered=true,
  breaklinks=false,
  raiselinks=true,
  pdfborder={0 0 0},
  colorlinks=true,
  plainpages=false,
  pdfstartview={FitH},
  pdfcreator={LaTeX with hyperref package},
  citecolor=teal,
  linkcolor=red,
  urlcolor=blue,
}
\begin{document}
%(begins)s
%(table)s
%(ends)s
\end{document}
"""
    },
    "table": {
        "default": r"""
\begin{%(table_env)s}
\centering
\label{tab:%(label)s}
\caption[%(short_cap)s]{%(long_cap)s}
\begin{tabular}{%(alignment)s}
\toprule
%(header)s
\midrule
%(body)s
\bottomrule
\end{tabular}
\end{%(table_env)s}""",
        "longtable": r"""
\begin{%(table_env)s}{%(alignment)s}
\caption[%(short_cap)s]{%(long_cap)s
\label{tab:%(label)s}}\\
\toprule
%(header)s
\midrule
%(body)s
\bottomrule
\end{%(table_env)s}""",
    },
}


def render_tex_to_pdf(contents, texfname, pdffname, output_dir, save):
    """Generates a pdf from a tex file by calling pdflatex

    Parameters
    ----------
    contents : str
    texfname : path
    pdffname : path
    output_dir : path
    save : path or bool or str(bool)

    """
    created_tempdir = False
    try:
        if output_dir is None:
            output_dir = tempfile.mkdtemp()
            created_tempdir = True
        texpath = os.path.join(output_dir, texfname)
        pdfpath = os.path.join(output_dir, pdffname)
        cmds = ["pdflatex", "-halt-on-error", "-interaction", "batchmode", texfname]
        with open(texpath, "wt") as ofh:
            ofh.write(contents)
            ofh.flush()
        with open(pdfpath + ".out", "wb") as logfile:
            p = subprocess.Popen(cmds, cwd=output_dir, stdout=logfile, stderr=logfile)
            retcode = p.wait()
            p = subprocess.Popen(cmds, cwd=output_dir, stdout=logfile, stderr=logfile)
            retcode += p.wait()
        if retcode:
            fmtstr = "{}\n returned with exit status {}"
            raise RuntimeError(fmtstr.format(" ".join(cmds), retcode))
        else:
            return pdfpath
    finally:
        if save is True or save == "True":
            pass
        else:
            if save is False or save == "False":
                if created_tempdir:
                    shutil.rmtree(output_dir)
            else:
                # interpret path to copy pdf to.
                if not os.path.samefile(pdfpath, save):
                    shutil.copy(pdfpath, save)


def rsys2tablines(
    rsys,
    rref0=1,
    coldelim=" & ",
    tex=True,
    ref_fmt=None,
    unit_registry=None,
    unit_fmt="{}",
    k_fmt="%.4g",
):
    """
    Generates a table representation of a ReactionSystem.

    Parameters
    ----------
    rsys : ReactionSystem
    rref0 : integer
        default start of index counter (default: 1)
    coldelim : string
        column delimiter (default: ' & ')
    tex : bool
        use latex formatted output (default: True)
    ref_fmt : string or callable
        format string of ``ref`` attribute of reactions
    unit_registry : unit registry
        optional (default: None)
    """
    if ref_fmt is None:

        def _doi(s):
            return r"\texttt{\href{http://dx.doi.org/" + s + "}{doi:" + s + "}}"

        def ref_fmt(s):
            if s is None:
                return "None"
            if tex:
                if isinstance(s, dict):
                    return _doi(s["doi"])
                if s.startswith("doi:"):
                    return _doi(s[4:])
            return s

    def _wrap(s):
        if tex:
            return "\\ensuremath{" + s + "}"
        else:
            return s

    lines = []
    for ri, rxn in enumerate(rsys.rxns):
        rxn_ref = rxn.ref
        if isinstance(rxn.param, RadiolyticBase):
            if unit_registry is not None:
                kunit = get_derived_unit(unit_registry, "radiolytic_yield")
                k = k_fmt % to_unitless(rxn.param.args[0], kunit)
                k_unit_str = (
                    kunit.dimensionality.latex.strip("$")
                    if tex
                    else kunit.dimensionality
                )
        else:
            if unit_registry is not None:
                kunit = get_derived_unit(unit_registry, "concentration") ** (
                    1 - rxn.order()
                ) / get_derived_unit(unit_registry, "time")
                try:
                    k = k_fmt % to_unitless(rxn.param, kunit)
                    k_unit_str = (
                        kunit.dimensionality.latex.strip("$")
                        if tex
                        else kunit.dimensionality
                    )
                except Exception:
                    k, k_unit_str = rxn.param.equation_as_string(k_fmt, tex)
            else:
                k_unit_str = "-"
                if isinstance(k_fmt, str):
                    k = k_fmt % rxn.param
                else:
                    k = k_fmt(rxn.param)
        latex_kw = dict(with_param=False, with_name=False)
        if tex:
            latex_kw["substances"] = rsys.substances
            latex_kw["Reaction_around_arrow"] = (
                "}}" + coldelim + "\\ensuremath{{",
                "}}" + coldelim + "\\ensuremath{{",
            )
        else:
            latex_kw["Reaction_around_arrow"] = (coldelim,) * 2
            latex_kw["Reaction_arrow"] = "->"
        lines.append(
            coldelim.join(
                [
                    str(rref0 + ri),
                    ("\\ensuremath{%s}" if tex else "%s") % latex(rxn, **latex_kw),
                    _wrap(k),
                    unit_fmt.format(_wrap(k_unit_str)),
                    ref_fmt(rxn_ref) if callable(ref_fmt) else ref_fmt.format(rxn_ref),
                ]
            )
        )

    return lines


def rsys2table(
    rsys,
    table_template=None,
    table_template_dict=None,
    param_name="Rate constant",
    **kwargs
):
    r"""
    Renders user provided table_template with table_template_dict which
    also has 'body' entry generated from `rsys2tablines`.

    Defaults is LaTeX table requiring booktabs package to be used
    (add \usepackage{booktabs} to preamble).

    Parameters
    ----------
    rsys : ReactionSystem
    table_template : string
    table_tempalte_dict : dict used to render table_template (excl. "body")
    param_name : str
        Column header for parameter column
    longtable : bool
        use longtable in defaults. (default: False)
    **kwargs :
        passed onto rsys2tablines

    """
    siunitx = kwargs.pop("siunitx", False)
    line_term = r" \\"
    defaults = {
        "table_env": "longtable" if kwargs.pop("longtable", False) else "table",
        "alignment": "llllSll" if siunitx else "lllllll",
        "header": kwargs.get("coldelim", " & ").join(
            ["Id.", "Reactants", "", "Products", "{%s}" % param_name, "Unit", "Ref"]
        )
        + line_term,
        "short_cap": rsys.name,
        "long_cap": rsys.name,
        "label": (rsys.name or "None").lower(),
    }

    if table_template_dict is None:
        table_template_dict = defaults
    else:
        for k, v in defaults:
            if k not in table_template_dict:
                table_template_dict[k] = v

    if "body" in table_template_dict:
        raise KeyError("There is already a 'body' key in table_template_dict")
    if "k_fmt" not in kwargs:
        kwargs["k_fmt"] = r"\num{%.4g}" if siunitx else "%.4g"
    table_template_dict["body"] = (line_term + "\n").join(
        rsys2tablines(rsys, **kwargs)
    ) + line_term

    if table_template is None:
        if table_template_dict["table_env"] == "longtable":
            table_template = tex_templates["table"]["longtable"]
        else:
            table_template = tex_templates["table"]["default"]

    return table_template % table_template_dict


def rsys2pdf_table(
    rsys,
    output_dir=None,
    doc_template=None,
    doc_template_dict=None,
    save=True,
    landscape=False,
    **kwargs
):
    """
    Convenience function to render a ReactionSystem as
    e.g. a pdf using e.g. pdflatex.

    Parameters
    ----------
    rsys : ReactionSystem
    output_dir : path to output directory
        (default: system's temporary folder)
    doc_template : string
        LaTeX boiler plate temlpate including preamble,
        document environment etc.
    doc_template_dict : dict (string -> string)
        dict used to render temlpate (excl. 'table')
    longtable : bool
        use longtable in defaults. (default: False)
    **kwargs :
        passed on to `rsys2table`
    """
    if doc_template is None:
        doc_template = tex_templates["document"]["default"]
    lscape = ["pdflscape" if landscape == "pdf" else "lscape"] if landscape else []
    _pkgs = [
        "booktabs",
        "amsmath",
        ("pdftex,colorlinks,unicode=True", "hyperref"),
    ] + lscape
    if kwargs.get("longtable", False):
        _pkgs += ["longtable"]
    if kwargs.get("siunitx", False):
        _pkgs += ["siunitx"]
    _envs = ["tiny"] + (["landscape"] if landscape else [])
    defaults = {
        "usepkg": "\n".join(
            [
                (r"\usepackage" + ("[%s]" if isinstance(pkg, tuple) else "") + "{%s}")
                % pkg
                for pkg in _pkgs
            ]
        ),
        "begins": "\n".join([r"\begin{%s}" % env for env in _envs]),
        "ends": "\n".join([r"\end{%s}" % env for env in _envs[::-1]]),
    }

    if doc_template_dict is None:
        doc_template_dict = defaults
    else:
        for k, v in defaults:
            if k not in doc_template_dict:
                doc_template_dict[k] = v

    if "table" in doc_template_dict:
        raise KeyError("There is already a 'table' key in doc_template_dict")
    doc_template_dict["table"] = rsys2table(rsys, **kwargs)

    contents = doc_template % doc_template_dict

    if isinstance(save, str) and save.endswith(".pdf"):
        texfname = save.rstrip(".pdf") + ".tex"
        pdffname = save
    else:
        texfname = "output.tex"
        pdffname = "output.pdf"
    return render_tex_to_pdf(contents, texfname, pdffname, output_dir, save)
