# -*- coding: utf-8 -*-
"""
General utilities and exceptions.
"""

from collections import defaultdict, namedtuple, OrderedDict

try:
    from collections.abc import ItemsView, Mapping
except ImportError:  # Python 2
    ItemsView = list
    from collections import Mapping
from functools import wraps
from itertools import product
import os
import types
import warnings

from .. import __url__
from .deprecation import Deprecation


def identity(x):
    return x


class NoConvergence(Exception):
    pass


class ChemPyDeprecationWarning(DeprecationWarning):
    pass


def deprecated(*args, **kwargs):
    """Helper to :class:`Deprecation` for using ChemPyDeprecationWarning."""
    return Deprecation(
        *args,
        issues_url=lambda s: __url__ + "/issues/" + s.lstrip("gh-"),
        warning=ChemPyDeprecationWarning,
        **kwargs
    )


warnings.simplefilter(
    os.environ.get("CHEMPY_DEPRECATION_FILTER", "once"), ChemPyDeprecationWarning
)


class DeferredImport(object):
    def __init__(self, modname, arg=None, decorators=None):
        self._modname = modname
        self._arg = arg
        self._decorators = decorators
        self._cache = None

    @property
    def cache(self):
        if self._cache is None:
            if self._arg is None:
                obj = __import__(self._modname)
            else:
                obj = getattr(
                    __import__(self._modname, globals(), locals(), [self._arg]),
                    self._arg,
                )
            if self._decorators is not None:
                for deco in self._decorators:
                    obj = deco(obj)
            self._cache = obj
        return self._cache

    def __getattribute__(self, attr):
        if attr in ("_modname", "_arg", "_cache", "cache", "_decorators"):
            return object.__getattribute__(self, attr)
        else:
            return getattr(self.cache, attr)

    def __call__(self, *args, **kwargs):
        return self.cache(*args, **kwargs)


class NameSpace:
    """Used to wrap, e.g. modules.

    Parameters
    ----------
    default : module
        The underlying module. Acts as a fallback for attribute access.

    Examples
    --------
    >>> import numpy
    >>> my_numpy = NameSpace(numpy)
    >>> my_numpy.array = lambda *args, **kwargs: list(numpy.array(*args, **kwargs))
    >>> isinstance(my_numpy.array([2, 3]), list)
    True
    >>> isinstance(numpy.array([2, 3]), list)
    False

    """

    def __init__(self, default):
        self._NameSpace_default = default
        self._NameSpace_attr_store = {}

    def __getattr__(self, attr):
        if attr.startswith("_NameSpace_"):
            return self.__dict__[attr]
        else:
            try:
                return self._NameSpace_attr_store[attr]
            except KeyError:
                return getattr(self._NameSpace_default, attr)

    def __setattr__(self, attr, val):
        if attr.startswith("_NameSpace_"):
            self.__dict__[attr] = val
        else:
            self._NameSpace_attr_store[attr] = val

    def as_dict(self):
        items = self._NameSpace_default.__dict__.items()
        result = {k: v for k, v in items if not k.startswith("_")}
        result.update(self._NameSpace_attr_store)
        return result


class AttributeContainer(object):
    """Used to turn e.g. a dictionary to a module-like object.

    Parameters
    ----------
    \\*\\*kwargs : dictionary

    Examples
    --------
    >>> def RT(T, const):
    ...     return T*const.molar_gas_constant
    ...
    >>> from quantities import constants
    >>> RT(273.15, constants)
    array(273.15) * R
    >>> my_constants = AttributeContainer(molar_gas_constant=42)
    >>> RT(273.15, my_constants)
    11472.3

    """

    def __init__(self, **kwargs):
        self.__dict__.update(**kwargs)

    def as_dict(self):
        return self.__dict__.copy()

    def __repr__(self):
        return "%s(%s)" % (
            self.__class__.__name__,
            ", ".join(set(dir(self)) - set(dir(object()))),
        )


class AttrDict(dict):
    """Subclass of dict with attribute access to keys"""

    def __init__(self, *args, **kwargs):
        super(AttrDict, self).__init__(*args, **kwargs)
        self.__dict__ = self


class defaultkeydict(defaultdict):
    """defaultdict where default_factory should have the signature key -> value

    Examples
    --------
    >>> d = defaultkeydict(lambda k: '[%s]' % k, {'a': '[a]', 'b': '[B]'})
    >>> d['a']
    '[a]'
    >>> d['b']
    '[B]'
    >>> d['c']
    '[c]'

    """

    def __missing__(self, key):
        if self.default_factory is None:
            raise KeyError("Missing key: %s" % key)
        else:
            self[key] = self.default_factory(key)
        return self[key]


def defaultnamedtuple(typename, field_names, defaults=()):
    """Generates a new subclass of tuple with default values.

    Parameters
    ----------
    typename : string
        The name of the class.
    field_names : str or iterable
        An iterable of splitable string.
    defaults : iterable
        Default values for ``field_names``, counting ``[-len(defaults):]``.

    Examples
    --------
    >>> Body = defaultnamedtuple('Body', 'x y z density', (1.0,))
    >>> Body.__doc__
    'Body(x, y, z, density)'
    >>> b = Body(10, z=3, y=5)
    >>> b._asdict() == dict(x=10, y=5, z=3, density=1.0)
    True

    Returns
    -------
    A new tuple subclass named ``typename``

    """
    Tuple = namedtuple(typename, field_names)
    Tuple.__new__.__defaults__ = (None,) * len(Tuple._fields)
    if isinstance(defaults, Mapping):
        Tuple.__new__.__defaults__ = tuple(Tuple(**defaults))
    else:
        nmissing = len(Tuple._fields) - len(defaults)
        defaults = (None,) * nmissing + tuple(defaults)
        Tuple.__new__.__defaults__ = tuple(Tuple(*defaults))
    return Tuple


def multi_indexed_cases(
    od,
    *,
    dict_=OrderedDict,
    apply_keys=None,
    apply_values=None,
    apply_return=list,
    named_index=False
):
    """Returns a list of length-2 tuples

    Each tuple consist of a multi-index (tuple of integers) and a dictionary.

    Parameters
    ----------
    od : OrderedDict
        Maps each key to a number of values. Instances of ``list``, ``tuple``,
        ``types.GeneratorType``, ``collections.abc.ItemsView`` are converted to ``OrderedDict``.
    dict_ : type, optional
        Used in the result (see ``Returns``).
    apply_keys : callable, optional
        Transformation of keys.
    apply_values : callable, optional
        Transformation of values.
    apply_return : callable, optional
        Applied on return value. ``None`` for generator.
    named_index : bool
        Tuple of indices will be a ``namedtuple`` (requires all keys to be ``str``).

    Examples
    --------
    >>> from chempy.util.pyutil import multi_indexed_cases
    >>> cases = multi_indexed_cases([('a', [1, 2, 3]), ('b', [False, True])])
    >>> len(cases)
    6
    >>> midxs, case_kws = zip(*cases)
    >>> midxs[0]
    (0, 0)
    >>> case_kws[0] == {'a': 1, 'b': False}
    True
    >>> d = {'a': 'foo bar'.split(), 'b': 'baz qux'.split()}
    >>> from chempy.util.pyutil import AttrDict
    >>> for nidx, case in multi_indexed_cases(d, dict_=AttrDict, named_index=True):
    ...     if case.a == 'bar' and case.b == 'baz':
    ...         print("{} {}".format(nidx.a, nidx.b))
    ...
    1 0


    Returns
    -------
    List of length-2 tuples, each consisting of one tuple of indices and one dictionary (of type ``dict_``).

    """
    if isinstance(od, OrderedDict):
        pass
    else:
        if hasattr(od, "items"):
            od = od.items()

        if isinstance(od, (list, tuple, types.GeneratorType, ItemsView)):
            od = OrderedDict(od)
        else:
            raise NotImplementedError("Expected an OrderedDict")

    keys, values = tuple(map(apply_keys or identity, od.keys())), tuple(od.values())
    MultiIndex = (
        namedtuple("MultiIndex", keys) if named_index else lambda *args: tuple(args)
    )
    _generator = (
        (
            MultiIndex(*mi),
            dict_(
                [
                    (k, (apply_values or identity)(v[i]))
                    for k, v, i in zip(keys, values, mi)
                ]
            ),
        )
        for mi in product(*map(range, map(len, values)))
    )
    return (apply_return or identity)(_generator)


def memoize(max_nargs=0):
    def decorator(func):
        @wraps(func)
        def wrapper(*args):
            if max_nargs is not None and len(args) > max_nargs:
                raise ValueError("memoization error")
            if args not in wrapper.results:
                wrapper.results[args] = func(*args)
            return wrapper.results[args]

        wrapper.results = {}
        return wrapper

    return decorator
