# -*- coding: utf-8 -*-
"""
Utilities for plotting with `bokeh <https://bokeh.pydata.org>`_.
"""

from collections import OrderedDict, defaultdict
from itertools import chain

from chempy.kinetics.ode import get_odesys
from chempy.units import to_unitless, linspace, logspace_from_lin


def integration_with_sliders(
    rsys,
    tend,
    c0,
    parameters,
    fig_kwargs=None,
    slider_kwargs=None,
    conc_bounds=None,
    x_axis_type="linear",
    y_axis_type="linear",
    integrate_kwargs=None,
    odesys_extra=None,
    get_odesys_kw=None,
    integrate=None,
):
    """
    Parameters
    ----------
    rsys : ReactionSystem
    tend : float like
    c0 : dict
        Initial concentrations.
    parameters : dict
        Parameter values.
    fig_kwargs : dict
        Keyword-arguments passed to bokeh's ``Figure``.
    slider_kwargs : dict
        Keyword-arguments passed to bokeh's ``Slider``.
    conc_bounds : dict of dicts
        Mapping substance key to dict of bounds ('start', 'end', 'step').
    x_axis_type : str
    y_axis_type : str
    integrate_kwargs : dict
        Keyword-arguments passed to integrate.
    odesys_extra : tuple
        If odesys & extra have already been generated (avoids call to ``get_odesys``).
    get_odesys_kw : dict
        Keyword-arguments passed to ``get_odesys``.
    integrate : callback
        Defaults to ``odesys.integrate``.

    """

    import numpy as np
    from bokeh.plotting import Figure
    from bokeh.models import ColumnDataSource, Column, Row
    from bokeh.models.widgets import Slider

    if slider_kwargs is None:
        slider_kwargs = {}
    if get_odesys_kw is None:
        get_odesys_kw = {}
    if odesys_extra is None:
        odesys, extra = get_odesys(rsys, **get_odesys_kw)
    else:
        odesys, extra = odesys_extra
    if integrate is None:
        integrate = odesys.integrate

    state_keys, rarg_keys, p_units = [
        extra[k] for k in ("param_keys", "unique", "p_units")
    ]
    output_conc_unit = get_odesys_kw.get("output_conc_unit", None)
    output_time_unit = get_odesys_kw.get("output_time_unit", None)
    unit_registry = get_odesys_kw.get("unit_registry", None)
    if output_conc_unit is None:
        if unit_registry is not None:
            raise ValueError(
                "if unit_registry is given, output_conc_unit must also be given"
            )
        output_conc_unit = 1
    if output_time_unit is None:
        if unit_registry is not None:
            raise ValueError(
                "if unit_registry is given, output_time_unit must also be given"
            )
        output_conc_unit = 1

    param_keys = list(chain(state_keys, rarg_keys))
    if x_axis_type == "linear":
        tout = linspace(tend * 0, tend)
    elif x_axis_type == "log":
        tout = logspace_from_lin(tend * 1e-9, tend)
    else:
        raise NotImplementedError("Unknown x_axis_type: %s" % x_axis_type)

    result = integrate(tout, c0, parameters, **(integrate_kwargs or {}))
    sources = [
        ColumnDataSource(
            data={
                "tout": to_unitless(result.xout, output_time_unit),
                k: to_unitless(result.yout[:, idx], output_conc_unit),
            }
        )
        for idx, k in enumerate(rsys.substances)
    ]
    if fig_kwargs is None:
        Cmax = np.max(result.yout)
        x_range = list(to_unitless([result.xout[0], result.xout[-1]], output_time_unit))
        y_range = list(to_unitless([Cmax * 0, Cmax * 1.1], output_conc_unit))
        fig_kwargs = dict(
            plot_height=400,
            plot_width=400,
            title="C vs t",
            tools="crosshair,pan,reset,save,wheel_zoom",
            x_range=x_range,
            y_range=y_range,
            x_axis_type=x_axis_type,
            y_axis_type=y_axis_type,
        )
    plot = Figure(**fig_kwargs)

    colors = "red green blue black cyan magenta".split()
    for idx, k in enumerate(rsys.substances):
        plot.line(
            "tout",
            k,
            source=sources[idx],
            line_width=3,
            line_alpha=0.6,
            color=colors[idx % len(colors)],
        )

    def _C(k):
        return to_unitless(c0[k], output_conc_unit)

    if p_units is None:
        p_units = [None] * len(param_keys)
    p_ul = [to_unitless(parameters[k], _u) for k, _u in zip(param_keys, p_units)]

    def _dict_to_unitless(d, u):
        return {k: to_unitless(v, u) for k, v in d.items()}

    c0_widgets = OrderedDict()
    for k in rsys.substances:
        if conc_bounds is not None and k in conc_bounds:
            if k in slider_kwargs:
                raise ValueError("Key '%s' both in slider_kwargs and conc_bounds" % k)
            slider_defaults = _dict_to_unitless(conc_bounds[k], output_conc_unit)
        else:
            ck = _C(k)
            if ck == 0:
                max_ = max(*[_C(k) for k in rsys.substances])
                slider_defaults = dict(start=0, end=max_, step=max_ / 100)
            else:
                slider_defaults = dict(start=_C(k) / 2, end=_C(k) * 2, step=_C(k) / 10)
        c0_widgets[k] = Slider(
            title=(k + " / " + output_conc_unit.dimensionality.unicode)
            if hasattr(output_conc_unit, "dimensionality")
            else k,
            value=_C(k),
            **slider_kwargs.get(k, slider_defaults)
        )

    param_widgets = OrderedDict(
        [
            (
                k,
                Slider(
                    title=k if u is None else k + " / " + u.dimensionality.unicode,
                    value=v,
                    **_dict_to_unitless(
                        slider_kwargs.get(
                            k, dict(start=v / 10, end=v * 10, step=v / 10)
                        ),
                        u,
                    )
                ),
            )
            for k, v, u in zip(param_keys, p_ul, p_units)
        ]
    )
    all_widgets = list(chain(param_widgets.values(), c0_widgets.values()))

    def update_data(attrname, old, new):
        _c0 = defaultdict(lambda: 0 * output_conc_unit)
        for k, w in c0_widgets.items():
            _c0[k] = w.value * output_conc_unit
        _params = {}
        for (k, w), u in zip(param_widgets.items(), p_units):
            _params[k] = w.value if u is None else w.value * u
        _result = integrate(tout, _c0, _params)
        for idx, k in enumerate(rsys.substances):
            sources[idx].data = {
                "tout": to_unitless(_result.xout, output_time_unit),
                k: to_unitless(_result.yout[:, idx], output_conc_unit),
            }

    for w in all_widgets:
        w.on_change("value", update_data)

    inputs = Column(children=all_widgets)
    return Row(children=[inputs, plot], width=800)
