# -*- coding: utf-8 -*-
"""
Utility functions related to stoichiometry.
"""


import numpy as np
from chempy.units import unit_of, to_unitless


def get_coeff_mtx(substances, stoichs):
    """
    Create a net stoichiometry matrix from reactions
    described by pairs of dictionaries.

    Parameters
    ----------
    substances : sequence of keys in stoichs dict pairs
    stoichs : sequence of pairs of dicts
        Pairs of reactant and product dicts mapping substance keys
        to stoichiometric coefficients (integers).

    Returns
    -------
    2 dimensional array of shape (len(substances), len(stoichs))

    """
    A = np.zeros((len(substances), len(stoichs)), dtype=int)
    for ri, sb in enumerate(substances):
        for ci, (reac, prod) in enumerate(stoichs):
            A[ri, ci] = prod.get(sb, 0) - reac.get(sb, 0)
    return A


def decompose_yields(yields, rxns, atol=1e-10):
    """Decomposes yields into mass-action reactions

    This function offers a way to express a reaction with non-integer
    stoichiometric coefficients as a linear combination of production reactions
    with integer coefficients.

    Ak = y

    A is (n_species x n_reactions) matrix, k is "rate coefficient", y is yields


    Parameters
    ----------
    yields : OrderedDict
        Specie names as keys and yields as values.
    rxns : iterable :class:`Reaction` instances
        Dict keys must match those of ``yields`` each pair
        of dictionaries gives stoichiometry
        (1st is reactant, 2nd is products).
    atol : float
        Absolute tolerance for residuals.


    Examples
    --------
    >>> from chempy import Reaction
    >>> h2a = Reaction({'H2O': 1}, {'H2': 1, 'O': 1})
    >>> h2b = Reaction({'H2O': 1}, {'H2': 1, 'H2O2': 1}, inact_reac={'H2O': 1})
    >>> decompose_yields({'H2': 3, 'O': 2, 'H2O2': 1}, [h2a, h2b])
    array([2., 1.])

    Raises
    ------
    ValueError
        When atol is exceeded
    numpy.LinAlgError
        When numpy.linalg.lstsq fails to converge

    Returns
    -------
    1-dimensional array of effective rate coefficients.

    """
    from chempy import ReactionSystem

    # Sanity check:
    rxn_keys = set.union(*(rxn.keys() for rxn in rxns))
    for key in yields.keys():
        if key not in rxn_keys:
            raise ValueError("Substance key: %s not in reactions" % key)
    rsys = ReactionSystem(rxns, rxn_keys)
    A = rsys.net_stoichs(yields.keys())
    b = list(yields.values())
    unit = unit_of(b[0])
    x, residuals, rank, s = np.linalg.lstsq(
        np.asarray(A.T, dtype=np.float64),
        to_unitless(b, unit),
        rcond=2e-16 * max(A.shape),
    )
    if len(residuals) > 0:
        if np.any(residuals > atol):
            raise ValueError("atol not satisfied")
    return x * unit
