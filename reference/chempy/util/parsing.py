# -*- coding: utf-8 -*-
""" Functions for chemical formulae and reactions """


from collections import defaultdict

import re

from .pyutil import memoize
from .periodic import symbols

parsing_library = "pyparsing"  # info used for selective testing.


def get_parsing_context():
    """returns the default dictionary for parsing strings in chempy"""
    import chempy
    from chempy.kinetics import rates
    from chempy.units import default_units, default_constants, to_unitless

    globals_ = dict(to_unitless=to_unitless, chempy=chempy)

    def _update(mod, keys=None):
        if keys is None:
            keys = dir(mod)
        globals_.update({k: getattr(mod, k) for k in keys if not k.startswith("_")})

    try:
        import numpy
    except ImportError:

        def _numpy_not_installed_raise(*args, **kwargs):
            raise ImportError("numpy not installed, no such method")

        class numpy:
            array = staticmethod(_numpy_not_installed_raise)
            log = staticmethod(_numpy_not_installed_raise)
            exp = staticmethod(_numpy_not_installed_raise)

    _update(numpy, keys="array log exp".split())  # could of course add more
    _update(rates)
    _update(chempy)
    for df in [default_units, default_constants]:
        if df is not None:
            globals_.update(df.as_dict())
    return globals_


@memoize()
def _get_formula_parser():
    """Create a forward pyparsing parser for chemical formulae

    BNF for simple chemical formula (no nesting)

        integer :: '0'..'9'+
        element :: 'A'..'Z' 'a'..'z'*
        term :: element [integer]
        formula :: term+


    BNF for nested chemical formula

        integer :: '0'..'9'+
        element :: 'A'..'Z' 'a'..'z'*
        term :: (element | '(' formula ')') [integer]
        formula :: term+

    Notes
    -----
    The code in this function is from an answer on StackOverflow:
        http://stackoverflow.com/a/18555142/790973
        written by:
            Paul McGuire, http://stackoverflow.com/users/165216/paul-mcguire
        in answer to the question formulated by:
            Thales MG, http://stackoverflow.com/users/2708711/thales-mg
        the code is licensed under 'CC-WIKI'.
        (see: http://blog.stackoverflow.com/2009/06/attribution-required/)

    Documentation for the desired product.  Original documentation
    above.

    Create a chemical formula parser.

    Parse a chemical formula, including elements, nested ions,
    complexes, charges (ions), hydrates, and state symbols.

    BNF for nested chemical formula with complexes

        count :: ( '1'..'9'? | '1'..'9'' '0'..'9'+ )
        element :: 'A'..'Z' 'a'..'z'*
        charge :: ( '-' | '+' ) ( '1'..'9'? | '1'..'9'' '0'..'9'+ )
        prime :: ( "*" | "'" )*
        term :: (element
                 | '(' formula ')'
                 | '{' formula '}'
                 | '[' formula ']' ) count prime charge?
        formula :: term+
        hydrate :: ( '..' | '\u00B7' ) count? formula
        state :: '(' ( 's' | 'l' | 'g' | 'aq' | 'cr' ) ')'
        compound :: count formula hydrate? state?

    Parse a chemical formula, including elements, non-integer
    subscripts, nested ions, complexes, charges (ions), hydrates, and
    state symbols.

    BNF for nested chemical formula with complexes

        count :: ( '1'..'9'? | '1'..'9'' '0'..'9'+ | '0'..'9'+ '.' '0'..'9'+ )
        element :: 'A'..'Z' 'a'..'z'*
        charge :: ( '-' | '+' ) ( '1'..'9'? | '1'..'9'' '0'..'9'+ )
        prime :: ( "*" | "'" )*
        term :: (element
                 | '(' formula ')'
                 | '{' formula '}'
                 | '[' formula ']' ) count prime charge?
        formula :: term+
        hydrate :: ( '..' | '\u00B7' ) count? formula
        state :: '(' ( 's' | 'l' | 'g' | 'aq' | 'cr' ) ')'
        compound :: count formula hydrate? state?
    """
    _p = __import__(parsing_library)
    Forward, Group, OneOrMore = _p.Forward, _p.Group, _p.OneOrMore
    Optional, ParseResults, Regex = _p.Optional, _p.ParseResults, _p.Regex
    Suppress = _p.Suppress

    # Define and suppress the grouping symbols.
    LCB = Suppress(Regex(r"\{"))
    RCB = Suppress(Regex(r"\}"))
    LSB = Suppress(Regex(r"\["))
    RSB = Suppress(Regex(r"\]"))
    LP = Suppress(Regex(r"\("))
    RP = Suppress(Regex(r"\)"))

    # Define and suppress the caged symbol.
    caged = Suppress(Regex(r"\@"))

    # Primes/stars for marking special species in reactions.
    primes = Suppress(Regex(r"[*']+"))

    # Parse counts (subscripts and coefficients).
    count = Regex(r"(\d+\.\d+|\d*)")
    count.setParseAction(lambda t: 1 if t[0] == "" else float(t[0]))

    # Parse states.
    state = Suppress(Regex(r"\((s|l|g|aq|cr)\)"))

    # Elements, 1-118, official symbols.
    element = Regex(
        r"A[cglmrstu]"
        "|B[aehikr]?"
        "|C[adeflmnorsu]?"
        "|D[bsy]"
        "|E[rsu]"
        "|F[elmr]?"
        "|G[ade]"
        "|H[efgos]?"
        "|I[nr]?"
        "|Kr?"
        "|L[airuv]"
        "|M[cdgnot]"
        "|N[abdehiop]?"
        "|O[gs]?"
        "|P[abdmortu]?"
        "|R[abefghnu]"
        "|S[bcegimnr]?"
        "|T[abcehilms]"
        "|U"
        "|V"
        "|W"
        "|Xe"
        "|Yb?"
        "|Z[nr]"
    ).setResultsName("element", listAllMatches=True)

    # forward declare 'formula' so it can be used in definition of 'term'
    formula = Forward()

    term = Group(
        (
            element
            | Group(LP + formula + RP)("subgroup")
            | Group(LSB + formula + RSB)("subgroup")
            | Group(LCB + formula + RCB)("subgroup")
            | Group(caged + formula)("subgroup")
        )
        + Optional(count, default=1)("mult")
        + Optional(state)("state")
        + Optional(primes)("primes")
    )

    # add parse actions for parse-time processing

    # parse action to multiply out subgroups
    def multiplyContents(tokens):
        t = tokens[0]
        # if these tokens contain a subgroup, then use multiplier to
        # extend counts of all elements in the subgroup
        if t.subgroup:
            mult = t.mult
            for term in t.subgroup:
                term[1] *= mult
            return t.subgroup

    term.setParseAction(multiplyContents)

    # add parse action to sum up multiple references to the same element
    def sumByElement(tokens):
        elementsList = [t[0] for t in tokens]

        # construct set to see if there are duplicates
        duplicates = len(elementsList) > len(set(elementsList))

        # if there are duplicate element names, sum up by element and
        # return a new nested ParseResults
        if duplicates:
            ctr = defaultdict(int)
            for t in tokens:
                ctr[t[0]] += t[1]
            return ParseResults([ParseResults([k, v]) for k, v in ctr.items()])

    # define contents of a formula as one or more terms
    formula << OneOrMore(term)
    formula.setParseAction(sumByElement)

    return formula


def _get_charge(chgstr):

    if chgstr == "+":
        return 1
    elif chgstr == "-":
        return -1

    for token, anti, sign in zip("+-", "-+", (1, -1)):
        if token in chgstr:
            if anti in chgstr:
                raise ValueError("Invalid charge description (+ & - present)")

            before, after = chgstr.split(token)

            if len(before) > 0 and len(after) > 0:
                raise ValueError("Values both before and after charge token")

            if len(after) > 0:
                return sign * int(1 if after == "" else after)

    raise ValueError("Invalid charge description (+ or - missing)")


def _formula_to_parts(formula, prefixes, suffixes):
    # Drop prefixes and suffixes.
    drop_pref, drop_suff = [], []
    for ign in prefixes:
        if formula.startswith(ign):
            drop_pref.append(ign)
            formula = formula[len(ign) :]
    for ign in suffixes:
        if formula.endswith(ign):
            drop_suff.append(ign)
            formula = formula[: -len(ign)]

    # Extract charge.
    if "/" in formula:
        raise ValueError(
            "Slashes ('/') in charge strings are deprecated."
            "  Use `Fe+3` instead of `Fe/3+`."
        )
    else:
        for token in "+-":
            if token in formula:
                if formula.count(token) > 1:
                    raise ValueError("Multiple tokens: %s" % token)
                parts = formula.split(token)
                parts[1] = token + parts[1]
                break
        else:
            parts = [formula, None]

    return parts + [tuple(drop_pref), tuple(drop_suff[::-1])]


def _parse_stoich(stoich):
    # Special case:  the electron is not an element.
    if stoich == "e":
        return {}

    comp = {}
    for k, n in _get_formula_parser().parseString(stoich, parseAll=True):
        # Only use rational subscripts if necessary as
        # ``sympy.linsolve()`` does not like non-integers when
        # balancing reactions.
        if n == int(n):
            comp[symbols.index(k) + 1] = int(n)
        else:
            comp[symbols.index(k) + 1] = n

    return comp


_greek_letters = (
    "alpha",
    "beta",
    "gamma",
    "delta",
    "epsilon",
    "zeta",
    "eta",
    "theta",
    "iota",
    "kappa",
    "lambda",
    "mu",
    "nu",
    "xi",
    "omicron",
    "pi",
    "rho",
    "sigma",
    "tau",
    "upsilon",
    "phi",
    "chi",
    "psi",
    "omega",
)
_greek_u = "αβγδεζηθικλμνξοπρστυφχψω"

_latex_mapping = {k + "-": "\\" + k + "-" for k in _greek_letters}
_latex_mapping["epsilon-"] = "\\varepsilon-"
_latex_mapping["omicron-"] = "o-"
_latex_mapping["."] = "^\\bullet "
_latex_infix_mapping = {"..": "\\cdot "}

_unicode_mapping = {k + "-": v + "-" for k, v in zip(_greek_letters, _greek_u)}
_unicode_mapping["."] = "⋅"
_unicode_infix_mapping = {"..": "\u00b7"}  # 0x00b7: '·'

_html_mapping = {k + "-": "&" + k + ";-" for k in _greek_letters}
_html_mapping["."] = "&sdot;"
# _html_infix_mapping = _html_mapping
_html_infix_mapping = {"..": "&sdot;"}


def _get_leading_integer(s):
    m = re.findall(r"^\d+", s)
    if len(m) == 0:
        m = 1
    elif len(m) == 1:
        s = s[len(m[0]) :]
        m = int(m[0])
    else:
        raise ValueError("Failed to parse: %s" % s)
    return m, s


def formula_to_composition(
    formula, prefixes=None, suffixes=("(s)", "(l)", "(g)", "(aq)")
):
    """Parse composition of formula representing a chemical formula

    Composition is represented as a dict mapping int -> int (atomic
    number -> multiplicity). "Atomic number" 0 represents net charge.

    Parameters
    ----------
    formula: str
        Chemical formula, e.g. 'H2O', 'Fe+3', 'Cl-'
    prefixes: iterable strings
        Prefixes to ignore, e.g. ('.', 'alpha-')
    suffixes: tuple of strings
        Suffixes to ignore, e.g. ('(g)', '(s)')

    Examples
    --------
    >>> formula_to_composition('NH4+') == {0: 1, 1: 4, 7: 1}
    True
    >>> formula_to_composition('.NHO-(aq)') == {0: -1, 1: 1, 7: 1, 8: 1}
    True
    >>> formula_to_composition('Na2CO3..7H2O') == {11: 2, 6: 1, 8: 10, 1: 14}
    True
    >>> formula_to_composition('UO2.3') == {92: 1, 8: 2.3}
    True

    """
    if prefixes is None:
        prefixes = _latex_mapping.keys()

    stoich_tok, chg_tok = _formula_to_parts(formula, prefixes, suffixes)[:2]
    tot_comp = {}
    if '\u00b7' in stoich_tok:
        parts = stoich_tok.split('\u00b7')
    else:
        parts = stoich_tok.split("..")

    for idx, stoich in enumerate(parts):
        if idx == 0:
            m = 1
        else:
            m, stoich = _get_leading_integer(stoich)
        comp = _parse_stoich(stoich)
        for k, v in comp.items():
            if k not in tot_comp:
                tot_comp[k] = m * v
            else:
                tot_comp[k] += m * v

    if chg_tok is not None:
        tot_comp[0] = _get_charge(chg_tok)

    return tot_comp


def _subs(string, patterns):
    for patt, repl in patterns.items():
        string = string.replace(patt, repl)

    return string


def _parse_multiplicity(strings, substance_keys=None):
    """
    Examples
    --------
    >>> _parse_multiplicity(['2 H2O2', 'O2']) == {'H2O2': 2, 'O2': 1}
    True
    >>> _parse_multiplicity(['2 * H2O2', 'O2']) == {'H2O2': 2, 'O2': 1}
    True
    >>> _parse_multiplicity(['']) == {}
    True
    >>> _parse_multiplicity(['H2O', 'H2O']) == {'H2O': 2}
    True

    """
    result = {}
    for items in [re.split(" \\* | ", s) for s in strings]:
        items = [x for x in items if x != ""]
        if len(items) == 0:
            continue
        elif len(items) == 1:
            if items[0] not in result:
                result[items[0]] = 0
            result[items[0]] += 1
        elif len(items) == 2:
            if items[1] not in result:
                result[items[1]] = 0
            result[items[1]] += (
                float(items[0]) if "." in items[0] or "e" in items[0] else int(items[0])
            )
        else:
            raise ValueError("To many parts in substring")
    if substance_keys is not None:
        for k in result:
            if k not in substance_keys:
                raise ValueError("Unknown substance_key: %s" % k)
    return result


def _is_inactive_term(term):
    """Whether ``term`` is a parenthesised (inactive) group, e.g. ``(2 H2O)``.

    The leading bracket must be closed by the very last character, a key which
    merely begins with a bracket (e.g. ``(NH4)2SO4``) is an ordinary term.
    """
    if not (term.startswith("(") and term.endswith(")")):
        return False
    depth = 0
    for idx, char in enumerate(term):
        if char == "(":
            depth += 1
        elif char == ")":
            depth -= 1
            if depth == 0:
                return idx == len(term) - 1
    return False


def to_reaction(line, substance_keys, token, Cls, globals_=None, **kwargs):
    """Parses a string into a Reaction object and substances

    Reac1 + 2 Reac2 + (2 Reac1) -> Prod1 + Prod2; 10**3.7; ref='doi:12/ab'
    Reac1 = Prod1; 2.1;

    Parameters
    ----------
    line: str
        string representation to be parsed
    substance_keys: iterable of strings
        Allowed names, e.g. ('H2O', 'H+', 'OH-')
    token : str
        delimiter token between reactant and product side
    Cls : class
        e.g. subclass of Reaction
    globals_: dict (optional)
        Globals passed on to :func:`eval`, when ``None``:
        `chempy.units.default_units` is used with 'chempy'
        and 'default_units' extra entries.

    Notes
    -----
    This function calls :func:`eval`, hence there are severe security concerns
    with running this on untrusted data.

    """
    if globals_ is None:
        globals_ = get_parsing_context()
    parts = line.rstrip("\n").split(";")
    stoich = parts[0].strip()
    if len(parts) > 2:
        kwargs.update(eval("dict(" + ";".join(parts[2:]) + "\n)", globals_ or {}))
    if len(parts) > 1:
        param = parts[1].strip()
    else:
        param = kwargs.pop("param", "None")

    if isinstance(param, str):
        if param.startswith("'") and param.endswith("'") and "'" not in param[1:-1]:
            from ..kinetics.rates import MassAction
            from ._expr import Symbol

            param = MassAction(Symbol(unique_keys=(param[1:-1],)))
        else:
            param = None if globals_ is False else eval(param, globals_)

    if token not in stoich:
        raise ValueError("Missing token: %s" % token)

    reac_prod = [[y.strip() for y in x.split(" + ")] for x in stoich.split(token)]

    act, inact = [], []
    for elements in reac_prod:
        act.append(
            _parse_multiplicity(
                [x for x in elements if not _is_inactive_term(x)], substance_keys
            )
        )
        inact.append(
            _parse_multiplicity(
                [x[1:-1] for x in elements if _is_inactive_term(x)],
                substance_keys,
            )
        )

    # stoich coeff -> dict
    return Cls(
        act[0], act[1], param, inact_reac=inact[0], inact_prod=inact[1], **kwargs
    )


def _formula_to_format(
    sub,
    sup,
    formula,
    prefixes=None,
    infixes=None,
    suffixes=("(s)", "(l)", "(g)", "(aq)"),
):
    parts = _formula_to_parts(formula, prefixes.keys(), suffixes)
    if '\u00b7' in parts[0]:
        stoichs = parts[0].split('\u00b7')
    else:
        stoichs = parts[0].split("..")
    string = ""
    for idx, stoich in enumerate(stoichs):
        if idx == 0:
            m = 1
        else:
            m, stoich = _get_leading_integer(stoich)
            string += _subs("..", infixes)
        if m != 1:
            string += str(m)
        string += re.sub(r"([0-9]+\.[0-9]+|[0-9]+)", lambda m: sub(m.group(1)), stoich)

    if parts[1] is not None:
        chg = _get_charge(parts[1])
        if chg < 0:
            token = "-" if chg == -1 else "%d-" % -chg
        if chg > 0:
            token = "+" if chg == 1 else "%d+" % chg
        string += sup(token)
    if len(parts) > 4:
        raise ValueError("Incorrect formula")
    # each dropped prefix is a key of ``prefixes``: look it up directly, repeated
    # substitution would also rewrite e.g. the "eta-" inside "beta-" and "theta-".
    pre_str = "".join(prefixes[x] for x in parts[2])
    return pre_str + string + "".join(parts[3])


def formula_to_latex(formula, prefixes=None, infixes=None, **kwargs):
    r"""Convert formula string to latex representation

    Parameters
    ----------
    formula: str
        Chemical formula, e.g. 'H2O', 'Fe+3', 'Cl-'
    prefixes: dict
        Prefix transformations, default: greek letters and .
    infixes: dict
        Infix transformations, default: .
    suffixes: iterable of str
        What suffixes not to interpret, default: (s), (l), (g), (aq)

    Examples
    --------
    >>> formula_to_latex('NH4+')
    'NH_{4}^{+}'
    >>> formula_to_latex('Fe(CN)6+2')
    'Fe(CN)_{6}^{2+}'
    >>> formula_to_latex('Fe(CN)6+2(aq)')
    'Fe(CN)_{6}^{2+}(aq)'
    >>> formula_to_latex('.NHO-(aq)')
    '^\\bullet NHO^{-}(aq)'
    >>> formula_to_latex('alpha-FeOOH(s)')
    '\\alpha-FeOOH(s)'

    """
    if prefixes is None:
        prefixes = _latex_mapping
    if infixes is None:
        infixes = _latex_infix_mapping
    return _formula_to_format(
        lambda x: "_{%s}" % x,
        lambda x: "^{%s}" % x,
        # formula,
        re.sub(r"([{}])", r"\\\1", formula) if re.search(r"[{}]", formula) else formula,
        prefixes,
        infixes,
        **kwargs
    )


_unicode_sub = {
    ".": ".",
}

for k, v in enumerate("₀₁₂₃₄₅₆₇₈₉."):
    _unicode_sub[str(k)] = v

_unicode_sup = {
    "+": "⁺",
    "-": "⁻",
}

for k, v in enumerate("⁰¹²³⁴⁵⁶⁷⁸⁹"):
    _unicode_sup[str(k)] = v


def formula_to_unicode(formula, prefixes=None, infixes=None, **kwargs):
    """Convert formula string to unicode string representation

    Parameters
    ----------
    formula : str
        Chemical formula, e.g. 'H2O', 'Fe+3', 'Cl-'
    prefixes : dict
        Prefix transofmrations, default: greek letters and .
    infixes : dict
        Infix transofmrations, default: .
    suffixes : tuple of strings
        Suffixes to keep, e.g. ('(g)', '(s)')

    Examples
    --------
    >>> formula_to_unicode('NH4+') == u'NH₄⁺'
    True
    >>> formula_to_unicode('Fe(CN)6+2') == u'Fe(CN)₆²⁺'
    True
    >>> formula_to_unicode('Fe(CN)6+2(aq)') == u'Fe(CN)₆²⁺(aq)'
    True
    >>> formula_to_unicode('.NHO-(aq)') == u'⋅NHO⁻(aq)'
    True
    >>> formula_to_unicode('alpha-FeOOH(s)') == u'α-FeOOH(s)'
    True

    """
    if prefixes is None:
        prefixes = _unicode_mapping
    if infixes is None:
        infixes = _unicode_infix_mapping
    return _formula_to_format(
        lambda x: "".join(_unicode_sub[str(_)] for _ in x),
        lambda x: "".join(_unicode_sup[str(_)] for _ in x),
        formula,
        prefixes,
        infixes,
        **kwargs
    )


def formula_to_html(formula, prefixes=None, infixes=None, **kwargs):
    """Convert formula string to html string representation

    Parameters
    ----------
    formula : str
        Chemical formula, e.g. 'H2O', 'Fe+3', 'Cl-'
    prefixes : dict
        Prefix transformations, default: greek letters and .
    infixes : dict
        Infix transformations, default: .
    suffixes : tuple of strings
        Suffixes to keep, e.g. ('(g)', '(s)')

    Examples
    --------
    >>> formula_to_html('NH4+')
    'NH<sub>4</sub><sup>+</sup>'
    >>> formula_to_html('Fe(CN)6+2')
    'Fe(CN)<sub>6</sub><sup>2+</sup>'
    >>> formula_to_html('Fe(CN)6+2(aq)')
    'Fe(CN)<sub>6</sub><sup>2+</sup>(aq)'
    >>> formula_to_html('.NHO-(aq)')
    '&sdot;NHO<sup>-</sup>(aq)'
    >>> formula_to_html('alpha-FeOOH(s)')
    '&alpha;-FeOOH(s)'

    """
    if prefixes is None:
        prefixes = _html_mapping
    if infixes is None:
        infixes = _html_infix_mapping
    return _formula_to_format(
        lambda x: "<sub>%s</sub>" % x,
        lambda x: "<sup>%s</sup>" % x,
        formula,
        prefixes,
        infixes,
        **kwargs
    )
