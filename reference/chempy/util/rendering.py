import re
from .parsing import get_parsing_context
from ..units import fold_constants


class TemplateEvaluator:
    def __init__(self, pattern=r"\${(.*?)}", fmt="${%s}", globals_=None, post_procs=()):
        self.mark = re.compile(pattern)
        self.fmt = fmt
        if globals_ is None:
            globals_ = get_parsing_context()
        self.globals_ = globals_
        self._post_procs = post_procs

    def _post_proc(self, arg):
        for pp in self._post_procs:
            arg = pp(arg)
        return arg

    def __call__(self, template, **kwargs):
        for item in self.mark.findall(template):
            ev = self._post_proc(eval(item, dict(self.globals_, **kwargs)))
            template = template.replace(self.fmt % item, str(ev))
        return template


eval_template = TemplateEvaluator(
    post_procs=(fold_constants, lambda x: str(x).replace(" ", "*"))
)
