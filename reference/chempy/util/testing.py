# -*- coding: utf-8 -*-

from pkg_resources import parse_requirements, parse_version

import os
from operator import lt, le, eq, ne, ge, gt
import pytest

_relop = dict(zip("< <= == != >= >".split(), (lt, le, eq, ne, ge, gt)))


class requires(object):
    """Conditional skipping (on requirements) of tests in pytest

    Examples
    --------
    >>> @requires('numpy', 'scipy')
    ... def test_sqrt():
    ...     import numpy as np
    ...     assert np.sqrt(4) == 2
    ...     from scipy.special import zeta
    ...     assert zeta(2) < 2
    ...
    >>> @requires('numpy>=1.9.0')
    ... def test_nanmedian():
    ...     import numpy as np
    ...     a = np.array([[10.0, 7, 4], [3, 2, 1]])
    ...     a[0, 1] = np.nan
    ...     assert np.nanmedian(a) == 3
    ...

    """

    def __init__(self, *reqs):
        self.missing = []
        self.incomp = []
        self.requirements = list(parse_requirements(reqs))
        for req in self.requirements:
            try:
                mod = __import__(req.project_name)
            except ImportError:
                self.missing.append(req.project_name)
            else:
                try:
                    ver = parse_version(mod.__version__)
                except AttributeError:
                    pass
                else:
                    for rel, vstr in req.specs:
                        if not _relop[rel](ver, parse_version(vstr)):
                            self.incomp.append(str(req))

    def __call__(self, cb):
        r = "Unfulfilled requirements."
        if self.missing:
            r += " Missing modules: %s." % ", ".join(self.missing)
        if self.incomp:
            r += " Incomp versions: %s." % ", ".join(self.incomp)
        return skipif(self.missing or self.incomp, reason=r)(cb)


def skipif(predicate, *, reason):
    if os.environ.get("CHEMPY_SKIP_NO_TESTS", "0") == "1":
        return pytest.mark.skipif(False, reason=reason)
    else:
        return pytest.mark.skipif(predicate, reason=reason)
