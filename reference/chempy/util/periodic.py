# -*- coding: utf-8 -*-


# The data in '_relative_atomic_masses' is licensed under the CC-SA license
# https://en.wikipedia.org/wiki/Standard_atomic_weight#List_of_atomic_weights
_elements = (
    # [Symbol, Name, Relative atomic mass, uncertainty]
    ["H", "Hydrogen", 1.008, 0.0],
    ["He", "Helium", 4.002602, 2e-06],
    ["Li", "Lithium", 6.94, 0.0],
    ["Be", "Beryllium", 9.0121831, 5e-07],
    ["B", "Boron", 10.81, 0.0],
    ["C", "Carbon", 12.011, 0.0],
    ["N", "Nitrogen", 14.007, 0.0],
    ["O", "Oxygen", 15.999, 0.0],
    ["F", "Fluorine", 18.998403163, 6e-09],
    ["Ne", "Neon", 20.1797, 0.0006],
    ["Na", "Sodium", 22.98976928, 2e-08],
    ["Mg", "Magnesium", 24.305, 0.0],
    ["Al", "Aluminium", 26.9815384, 3e-07],
    ["Si", "Silicon", 28.085, 0.0],
    ["P", "Phosphorus", 30.973761998, 5e-09],
    ["S", "Sulfur", 32.06, 0.0],
    ["Cl", "Chlorine", 35.45, 0.0],
    ["Ar", "Argon", 39.95, 0.0],
    ["K", "Potassium", 39.0983, 0.0001],
    ["Ca", "Calcium", 40.078, 0.004],
    ["Sc", "Scandium", 44.955908, 5e-06],
    ["Ti", "Titanium", 47.867, 0.001],
    ["V", "Vanadium", 50.9415, 0.0001],
    ["Cr", "Chromium", 51.9961, 0.0006],
    ["Mn", "Manganese", 54.938043, 2e-06],
    ["Fe", "Iron", 55.845, 0.002],
    ["Co", "Cobalt", 58.933194, 3e-06],
    ["Ni", "Nickel", 58.6934, 0.0004],
    ["Cu", "Copper", 63.546, 0.003],
    ["Zn", "Zinc", 65.38, 0.02],
    ["Ga", "Gallium", 69.723, 0.001],
    ["Ge", "Germanium", 72.63, 0.008],
    ["As", "Arsenic", 74.921595, 6e-06],
    ["Se", "Selenium", 78.971, 0.008],
    ["Br", "Bromine", 79.904, 0.0],
    ["Kr", "Krypton", 83.798, 0.002],
    ["Rb", "Rubidium", 85.4678, 0.0003],
    ["Sr", "Strontium", 87.62, 0.01],
    ["Y", "Yttrium", 88.90584, 1e-05],
    ["Zr", "Zirconium", 91.224, 0.002],
    ["Nb", "Niobium", 92.90637, 1e-05],
    ["Mo", "Molybdenum", 95.95, 0.01],
    ["Tc", "Technetium", "[98]", 0.0],
    ["Ru", "Ruthenium", 101.07, 0.02],
    ["Rh", "Rhodium", 102.90549, 2e-06],
    ["Pd", "Palladium", 106.42, 0.01],
    ["Ag", "Silver", 107.8682, 0.0002],
    ["Cd", "Cadmium", 112.414, 0.004],
    ["In", "Indium", 114.818, 0.001],
    ["Sn", "Tin", 118.71, 0.007],
    ["Sb", "Antimony", 121.76, 0.001],
    ["Te", "Tellurium", 127.6, 0.03],
    ["I", "Iodine", 126.90447, 3e-05],
    ["Xe", "Xenon", 131.293, 0.006],
    ["Cs", "Caesium", 132.90545196, 6e-08],
    ["Ba", "Barium", 137.327, 0.007],
    ["La", "Lanthanum", 138.90547, 7e-05],
    ["Ce", "Cerium", 140.116, 0.001],
    ["Pr", "Praseodymium", 140.90766, 1e-05],
    ["Nd", "Neodymium", 144.242, 0.003],
    ["Pm", "Promethium", "[145]", 0.0],
    ["Sm", "Samarium", 150.36, 0.02],
    ["Eu", "Europium", 151.964, 0.001],
    ["Gd", "Gadolinium", 157.25, 0.03],
    ["Tb", "Terbium", 158.925354, 8e-06],
    ["Dy", "Dysprosium", 162.5, 0.001],
    ["Ho", "Holmium", 164.930328, 7e-06],
    ["Er", "Erbium", 167.259, 0.003],
    ["Tm", "Thulium", 168.934218, 6e-06],
    ["Yb", "Ytterbium", 173.045, 0.010],
    ["Lu", "Lutetium", 174.9668, 0.0001],
    ["Hf", "Hafnium", 178.486, 0.006],
    ["Ta", "Tantalum", 180.94788, 2e-05],
    ["W", "Tungsten", 183.84, 0.01],
    ["Re", "Rhenium", 186.207, 0.001],
    ["Os", "Osmium", 190.23, 0.03],
    ["Ir", "Iridium", 192.217, 0.002],
    ["Pt", "Platinum", 195.084, 0.009],
    ["Au", "Gold", 196.966570, 4e-06],
    ["Hg", "Mercury", 200.592, 0.003],
    ["Tl", "Thallium", 204.38, 0.0],
    ["Pb", "Lead", 207.2, 1.1],
    ["Bi", "Bismuth", 208.9804, 1e-05],
    ["Po", "Polonium", "[209]", 0.0],
    ["At", "Astatine", "[210]", 0.0],
    ["Rn", "Radon", "[222]", 0.0],
    ["Fr", "Francium", "[223]", 0.0],
    ["Ra", "Radium", "[226]", 0.0],
    ["Ac", "Actinium", "[227]", 0.0],
    ["Th", "Thorium", 232.0377, 0.0004],
    ["Pa", "Protactinium", 231.03588, 1e-05],
    ["U", "Uranium", 238.02891, 3e-05],
    ["Np", "Neptunium", "[237]", 0.0],
    ["Pu", "Plutonium", "[244]", 0.0],
    ["Am", "Americium", "[243]", 0.0],
    ["Cm", "Curium", "[247]", 0.0],
    ["Bk", "Berkelium", "[247]", 0.0],
    ["Cf", "Californium", "[251]", 0.0],
    ["Es", "Einsteinium", "[252]", 0.0],
    ["Fm", "Fermium", "[257]", 0.0],
    ["Md", "Mendelevium", "[258]", 0.0],
    ["No", "Nobelium", "[259]", 0.0],
    ["Lr", "Lawrencium", "[266]", 0.0],
    ["Rf", "Rutherfordium", "[267]", 0.0],
    ["Db", "Dubnium", "[268]", 0.0],
    ["Sg", "Seaborgium", "[269]", 0.0],
    ["Bh", "Bohrium", "[270]", 0.0],
    ["Hs", "Hassium", "[271]", 0.0],
    ["Mt", "Meitnerium", "[278]", 0.0],
    ["Ds", "Darmstadtium", "[281]", 0.0],
    ["Rg", "Roentgenium", "[282]", 0.0],
    ["Cn", "Copernicium", "[285]", 0.0],
    ["Nh", "Nihonium", "[286]", 0.0],
    ["Fl", "Flerovium", "[289]", 0.0],
    ["Mc", "Moscovium", "[290]", 0.0],
    ["Lv", "Livermorium", "[293]", 0.0],
    ["Ts", "Tennessine", "[294]", 0.0],
    ["Og", "Oganesson", "[294]", 0.0],
)

symbols = tuple(n[0] for n in _elements)
names = tuple(n[1] for n in _elements)
lower_names = tuple(n[1].lower() for n in _elements)

period_lengths = (2, 8, 8, 18, 18, 32, 32)
accum_period_lengths = (2, 10, 18, 36, 54, 86, 118)

# icosagens, crystallogens, pnictogens, chalcogens, halogens
groups = {g: tuple(x - 18 + g for x in accum_period_lengths[1:]) for g in range(13, 18)}
groups[1] = (1,) + tuple(x + 1 for x in accum_period_lengths[:-1])  # alkali metals
groups[2] = tuple(x + 2 for x in accum_period_lengths[:-1])  # alkaline earth metals
groups[18] = accum_period_lengths  # noble gases


def atomic_number(name):
    """Provide atomic number for a given element

    Parameters
    ----------
    name: str
        Full name or chemical symbol of an element

    Returns
    -------
    int
        Atomic number
    """
    try:
        return symbols.index(name.capitalize()) + 1
    except ValueError:
        return lower_names.index(name.lower()) + 1


def _get_relative_atomic_masses():
    for mass in tuple(element[2] for element in _elements):
        yield float(mass[1:-1]) if str(mass).startswith("[") else float(mass)


relative_atomic_masses = tuple(_get_relative_atomic_masses())


def mass_from_composition(composition):
    """Calculates molecular mass from atomic weights

    Parameters
    ----------
    composition: dict
        Dictionary mapping int (atomic number) to int (coefficient)

    Returns
    -------
    float
        molecular weight in atomic mass units


    Notes
    -----
    Atomic number 0 denotes charge or "net electron defficiency"

    Examples
    --------
    >>> '%.2f' % mass_from_composition({0: -1, 1: 1, 8: 1})
    '17.01'
    """
    mass = 0.0
    for k, v in composition.items():
        if k == 0:  # electron
            mass -= v * 5.489e-4
        else:
            mass += v * relative_atomic_masses[k - 1]
    return mass
