from collections import OrderedDict
from chempy import Reaction
from chempy.kinetics.rates import MassAction, RadiolyticBase
from chempy.units import to_unitless, default_units as u


def jl_dict(od):
    return "Dict([%s])" % ", ".join(["(:%s, %.4g)" % (k, v) for k, v in od.items()])


def _r(r, p, substmap, parmap, *, unit_conc, unit_time, variables=None):
    """
    Parameters
    ==========
    ...
    variables: dict
        e.g. dict(doserate=99.9*u.Gy/u.s, density=998*u.kg/u.m3)
    """
    (pk,) = r.param.unique_keys
    if isinstance(r.param, MassAction):
        ratcoeff = to_unitless(p[pk], unit_conc ** (1 - r.order()) / unit_time)
        if not r.inact_reac:
            r_str = "{}, {}".format(
                parmap[pk],
                r.string(
                    substances=substmap,
                    with_param=False,
                    Reaction_arrow="-->",
                    Reaction_coeff_space="",
                ),
            )
        else:
            all_keys = r.keys()
            reac_stoichs = r.all_reac_stoich(all_keys)
            act_stoichs = r.active_reac_stoich(all_keys)
            rate = "*".join(
                [parmap[pk]]
                + [
                    ("%s^%d" % (substmap[k], v)) if v > 1 else substmap[k]
                    for k, v in zip(all_keys, act_stoichs)
                    if v > 0
                ]
            )
            r2 = Reaction(
                dict([(k, v) for k, v in zip(all_keys, reac_stoichs) if v]), r.prod
            )
            r_str = "{}, {}".format(
                rate,
                r2.string(
                    substances=substmap,
                    with_param=False,
                    Reaction_arrow="\u21D2",
                    Reaction_coeff_space="",
                ),
            )
    elif isinstance(r.param, RadiolyticBase):
        ratcoeff = to_unitless(
            p[pk] * variables["doserate"] * variables["density"], unit_conc / unit_time
        )
        assert not r.reac and not r.inact_reac and not r.inact_prod
        ((prod, n),) = r.prod.items()
        assert n == 1
        r_str = ("{}, 0 \u21D2 {}" if ratcoeff > 0 else "{}, {} \u21D2 0").format(
            parmap[pk], substmap[prod]
        )
    else:
        raise NotImplementedError("What's that?")
    return r_str, pk, abs(ratcoeff)


class DiffEqBioJl:
    _template_body = """\
{name} = @{crn_macro} begin
    {reactions}
end {parameters}
{post}
"""

    defaults = dict(unit_conc=u.molar, unit_time=u.second)

    def __init__(self, *, rxs, pars, substance_key_map, parmap, **kwargs):
        self.rxs = rxs
        self.pars = pars
        self.substance_key_map = substance_key_map
        self.parmap = parmap
        self.unit_conc = kwargs.get("unit_conc", self.defaults["unit_conc"])
        self.unit_time = kwargs.get("unit_time", self.defaults["unit_time"])

    @classmethod
    def from_rsystem(
        cls,
        rsys,
        par_vals,
        *,
        variables=None,
        substance_key_map=lambda i, sk: "y%d" % i,
        **kwargs
    ):
        if not isinstance(substance_key_map, dict):
            substance_key_map = {
                sk: substance_key_map(si, sk) for si, sk in enumerate(rsys.substances)
            }
        parmap = dict(
            [(r.param.unique_keys[0], "p%d" % i) for i, r in enumerate(rsys.rxns)]
        )
        rxs, pars = [], OrderedDict()
        for r in rsys.rxns:
            rs, pk, pv = _r(
                r,
                par_vals,
                substance_key_map,
                parmap,
                variables=variables,
                unit_conc=kwargs.get("unit_conc", cls.defaults["unit_conc"]),
                unit_time=kwargs.get("unit_time", cls.defaults["unit_time"]),
            )
            rxs.append(rs)
            if pk in pars:
                raise ValueError("Are you sure (sometimes intentional)?")
            pars[parmap[pk]] = pv
        return cls(
            rxs=rxs,
            pars=pars,
            substance_key_map=substance_key_map,
            parmap=parmap,
            **kwargs
        )

    def render_body(self, sparse_jac=False):
        name = "rn"
        return self._template_body.format(
            crn_macro="min_reaction_network" if sparse_jac else "reaction_network",
            name=name,
            reactions="\n    ".join(self.rxs),
            parameters=" ".join(self.pars),
            post="addodes!({}, sparse_jac=True)".format(name) if sparse_jac else "",
        )

    def render_setup(self, *, ics, atol, tex=True, tspan=None):
        export = ""
        export += "p = %s\n" % jl_dict(self.pars)
        export += "ics = %s\n" % jl_dict(
            OrderedDict(
                {
                    self.substance_key_map[k]: v
                    for k, v in to_unitless(ics, u.molar).items()
                }
            )
        )
        if atol:
            export += "abstol_d = %s\n" % jl_dict(
                {
                    self.substance_key_map[k]: v
                    for k, v in to_unitless(atol, u.molar).items()
                }
            )
            export += (
                "abstol = Array([get(abstol_d, k, 1e-10) for k=keys(speciesmap(rn))])"
            )
        if tex:
            export += "subst_tex = Dict([%s])\n" % ", ".join(
                '(:%s, ("%s", "%s"))' % (v, k, k.latex_name)
                for k, v in self.substance_key_map.items()
            )
        if tspan:
            export += """\
tspan = (0., %12.5g)
u0 = Array([get(ics, k, 1e-28) for k=keys(speciesmap(rn))])
parr = Array([p[k] for k=keys(paramsmap(rn))])
oprob = ODEProblem(rn, u0, tspan, parr)
"""
        return export

    def render_solve(self):
        return (
            "sol = solve(oprob, reltol=1e-9, abstol=abstol, Rodas5(),"
            " callback=PositiveDomain(ones(length(u0)), abstol=abstol))"
        )
