# -*- coding: utf-8 -*-
"""
This module provides a class :class:`Expr` to subclass from in order to
describe expressions. The hope was that this class would allow straightforward
interoperability between python packages handling symbolics (SymPy) and units
(quantities) as well as working without either of those. The price for this has
been a complicated implementation and unnatural syntax.

Note that this module is to be considered an implementation detail, and not
something that should be relied upon in external code. Consider the ``.util._expr``
module deprecated and aim to use SymPy expressions where possible, and handle units
separately.
"""

import math
from itertools import chain
from operator import add, mul, truediv, sub, pow
from .pyutil import defaultkeydict, deprecated

try:
    import sympy
except ImportError:
    sympy = None


def _implicit_conversion(obj):
    if isinstance(obj, (int, float)):
        return Constant(obj)
    elif isinstance(obj, Expr):
        return obj
    elif isinstance(obj, str):
        return Symbol(unique_keys=(obj,))

    if sympy is not None:
        if isinstance(obj, sympy.Mul):
            if len(obj.args) != 2:
                raise NotImplementedError("Did you use evaluate=False?")
            return _MulExpr(
                [_implicit_conversion(obj.args[0]), _implicit_conversion(obj.args[1])]
            )
        elif isinstance(obj, sympy.Add):
            if len(obj.args) != 2:
                raise NotImplementedError("Did you use evaluate=False?")
            return _AddExpr(
                [_implicit_conversion(obj.args[0]), _implicit_conversion(obj.args[1])]
            )
        elif isinstance(obj, sympy.Pow):
            return _PowExpr(
                _implicit_conversion(obj.base), _implicit_conversion(obj.exp)
            )
        elif isinstance(obj, sympy.Float):
            return Constant(float(obj))
        elif isinstance(obj, sympy.Symbol):
            return Symbol(unique_keys=(obj.name,))

    raise NotImplementedError(
        "Don't know how to convert %s (of type %s)" % (obj, type(obj))
    )


class Expr(object):
    """Baseclass for Expressions corresponding to physical quantities.

    The design assumes that a large group of different Expr subclasses may
    be evaluated with some shared state (parameter_keys). The backend kwarg
    in call enables use of e.g. math, numpy or sympy interchangeably.

    Parameters
    ----------
    args : tuple/list of scalars or dict mapping name to scalar
        When dict: it is converted to a list using ``self.argument_names`` or
        ``self.unique_keys``.
    unique_keys : iterable of strings
        Unique names (among all instances) for late overriding, aligned with beginning of
        ``args``.

    Examples
    --------
    >>> class HeatCapacity(Expr):
    ...     parameter_keys = ('temperature',)
    ...
    >>> import math
    >>> class EinsteinSolid(HeatCapacity):
    ...     parameter_keys = HeatCapacity.parameter_keys + ('molar_gas_constant',)
    ...     argument_names = ('einstein_temperature', 'molar_mass')
    ...
    ...     def __call__(self, variables, backend=math):
    ...         TE, molar_mass = self.all_args(variables, backend=backend)  # einstein_temperature
    ...         T, R = self.all_params(variables, backend=backend)
    ...         # Canonical ensemble:
    ...         molar_c_v = 3*R*(TE/(2*T))**2 * backend.sinh(TE/(2*T))**-2
    ...         return molar_c_v/molar_mass
    ...
    >>> from chempy import Substance
    >>> Al = Substance.from_formula('Al', data={'DebyeT': 428})
    >>> Be = Substance.from_formula('Be', data={'DebyeT': 1440})
    >>> einT = lambda s: 0.806*s.data['DebyeT']
    >>> cv = {s.name: EinsteinSolid([einT(s), s.mass]) for s in (Al, Be)}
    >>> print('%.4f' % cv['Al']({'temperature': 273.15, 'molar_gas_constant': 8.3145}))  # J/(g*K)
    0.8108
    >>> import sympy; from sympy import Symbol as Symb
    >>> print(cv['Be']({'temperature': Symb('T'), 'molar_gas_constant': Symb('R')}, backend=sympy))
    112105.346283965*R/(T**2*sinh(580.32/T)**2)

    Attributes
    ----------
    argument_names : tuple of strings, optional
        For documentation and referencing positional arguments in self.args
        If set, and `nargs` is `None`: its length is used to set `nargs`
        (unless argument_names ends with an Ellipsis()).
    argument_defaults : tuple of floats, optional
        Default values for arguments, aligned from the end of argument names.
    parameter_keys : tuple of strings
    nargs : int
        number of arguments (`None` signifies unset, -1 signifies any number)
    """

    argument_names = None
    argument_defaults = None
    parameter_keys = ()
    nargs = None

    @property
    def trivially_zero(self):
        return False

    def __init__(self, args=None, unique_keys=None):
        if isinstance(args, str):
            args = (args,)
        if (
            self.argument_names is not None
            and self.argument_names[-1] != Ellipsis
            and self.nargs is None
        ):
            self.nargs = len(self.argument_names)
        if self.argument_defaults is not None:
            if self.nargs == -1:
                raise ValueError(
                    "Cannot have defaults when number of arguments is unbounded."
                )
            if len(self.argument_defaults) > len(self.argument_names):
                raise ValueError("Cannot have more defaults than actual arguments")
            if args is not None:
                n_missing = self.nargs - len(args)
                if n_missing > 0:
                    args = tuple(chain(args, self.argument_defaults[-n_missing:]))

        if self.nargs == 1 and (
            isinstance(args, (float, int))
            or getattr(args, "ndim", -1) == 0
            or isinstance(args, Expr)
        ):
            args = [args]
            nargs = 1
        elif args is None:
            nargs = None
        else:
            nargs = len(args)

        if self.nargs not in (None, -1) and nargs is not None and nargs != self.nargs:
            raise ValueError(
                "Incorrect number of arguments: %d (expected %d)" % (nargs, self.nargs)
            )
        if (
            unique_keys is not None
            and self.nargs is not None
            and len(unique_keys) > self.nargs
        ):
            raise ValueError(
                "Incorrect number of unique_keys: %d (expected %d or less)"
                % (len(unique_keys), self.nargs)
            )
        self.unique_keys = None if unique_keys is None else tuple(unique_keys)

        if isinstance(args, dict):
            args = [args[k] for k in self.argument_names or self.unique_keys]

        self.args = args

    @classmethod
    def fk(cls, *args):
        """Alternative constructor "from keys", \\*args is used as ``unique_keys``."""
        return cls(unique_keys=args)

    @classmethod
    def from_callback(cls, callback, attr="__call__", **kwargs):
        """Factory of subclasses

        Parameters
        ----------
        callback : callable
            signature: *args, backend=math
        attr : str
            What attribute to override
        argument_names : tuple of str, optional
        argument_defaults : tuple of floats, optional
        parameter_keys : tuple of str, optional,
        nargs : int, optional

        Examples
        --------
        >>> from operator import add; from functools import reduce
        >>> def poly(args, x, backend=math):
        ...     x0 = args[0]
        ...     return reduce(add, [c*(x-x0)**i for i, c in enumerate(args[1:])])
        ...
        >>> Poly = Expr.from_callback(poly, parameter_keys=('x',), argument_names=('x0', Ellipsis))
        >>> p = Poly([1, 3, 2, 5])
        >>> p({'x': 7}) == 3 + 2*(7-1) + 5*(7-1)**2
        True
        >>> q = Poly([1, 3, 2, 5], unique_keys=('x0_q',))
        >>> q({'x': 7, 'x0_q': 0}) == 3 + 2*7 + 5*7**2
        True

        """

        def body(self, variables, backend=math, **kw):
            args = self.all_args(variables, backend=backend)
            params = self.all_params(variables, backend=backend)
            return callback(args, *params, backend=backend, **kw)

        class Wrapper(cls):
            pass

        setattr(Wrapper, attr, body)
        Wrapper.__name__ = callback.__name__
        for k, v in kwargs.items():
            setattr(Wrapper, k, v)
        return Wrapper

    def __call__(self, variables, backend=math, **kwargs):
        raise NotImplementedError("Subclass and implement __call__")

    def __float__(self):
        return float(self({}))

    def _all_keys(self, attr):
        _keys = getattr(self, attr)
        _all = set() if _keys is None else set(_keys)
        if self.args is not None:
            for arg in self.args:
                if isinstance(arg, Expr):
                    _all = _all.union(arg._all_keys(attr))
        return _all

    def all_parameter_keys(self):
        return self._all_keys("parameter_keys")

    def all_unique_keys(self):
        return self._all_keys("unique_keys")

    def _str(self, arg_fmt, unique_keys_fmt=str):
        if self.args is None or len(self.args) == 0:
            args_str = ""
        elif len(self.args) == 1:
            args_str = "%s," % self.args[0]
        else:
            args_str = "%s" % ", ".join(map(arg_fmt, self.args))
        args_strs = [
            ", ".join(
                chain(
                    ["(%s)" % args_str],
                    [unique_keys_fmt(self.unique_keys)]
                    if self.unique_keys is not None
                    else [],
                )
            )
        ]
        return "{}({})".format(self.__class__.__name__, ", ".join(args_strs))

    def __repr__(self):
        return self._str(repr)

    def string(self, arg_fmt=str, **kwargs):
        return self._str(arg_fmt, **kwargs)

    def arg(self, variables, index, backend=math, evaluate=True, **kwargs):
        """
        Parameters
        ----------
        variables : container
        index : int or str
            When str: index from ``self.argument_names``.
        backend : module
        evaluate : bool

        Notes
        -----
        Priority:
            1. unique_keys
            2. variables[k] for k in argument_names
        """
        if isinstance(index, str):
            index = self.argument_names.index(index)

        if self.unique_keys is None:
            res = self.args[index]
        elif index < len(self.unique_keys):
            uk = self.unique_keys[index]
            try:
                res = variables[uk]
            except KeyError:
                if self.args is None:
                    raise KeyError("Unique key missing: %s" % uk)
                else:
                    res = self.args[index]
        else:
            if self.args is None or index > len(self.args):
                res = self.argument_defaults[
                    index - self.nargs + len(self.argument_defaults)
                ]
            else:
                res = self.args[index]

        if isinstance(res, str):
            res = variables[res]
        # elif isinstance(res, Symbol):
        #     res = variables[res.unique_keys[0]]

        if isinstance(res, Expr) and evaluate:
            return res(variables, backend=backend, **kwargs)
        else:
            return res

    def all_args(self, variables, backend=math, evaluate=True, **kwargs):
        if self.nargs is None or self.nargs == -1:
            nargs = len(self.args)
        else:
            nargs = self.nargs
        return [
            self.arg(variables, i, backend, evaluate, **kwargs) for i in range(nargs)
        ]

    def all_params(self, variables, backend=math):
        return [
            v(variables, backend=backend) if isinstance(v, Expr) else v
            for v in [variables[k] for k in self.parameter_keys]
        ]

    def args_dimensionality(self, **kwargs):
        """return tuple of dicts mapping str to int ('length', 'mass', 'time', 'current',
        'temperature', 'luminous_intensity', 'amount')"""
        raise NotImplementedError("method not implemented in subclass.")

    def dedimensionalisation(self, unit_registry, variables={}, backend=math):
        """Create an instance with consistent units from a unit_registry

        Parameters
        ----------
        unit_registry : dict
        variables : dict
        backend : module

        Examples
        --------
        >>> class Pressure(Expr):
        ...     argument_names = ('n',)
        ...     parameter_keys = ('temperature', 'volume', 'R')
        ...     def __call__(self, variables, backend=math, **kwargs):
        ...         n, = self.all_args(variables, backend=backend)
        ...         T, V, R = self.all_params(variables, backend=backend)
        ...         return n*R*T/V
        ...
        >>> from chempy.units import SI_base_registry, default_units as u
        >>> p = Pressure([2*u.micromole])
        >>> units, d = p.dedimensionalisation(SI_base_registry)
        >>> units[0] == 1e6*u.micromole
        True
        >>> d.args[0] == 2e-6
        True


        Returns
        -------
        new_units: list of units of the dedimensionalised args.
        self.__class__ instance: with dedimensioanlised arguments

        """
        from ..units import default_unit_in_registry, to_unitless, unitless_in_registry

        new_units = []
        if self.args is None:
            unitless_args = None
        else:
            unitless_args = []
            units = [
                None
                if isinstance(arg, Expr)
                else default_unit_in_registry(arg, unit_registry)
                for arg in self.all_args(variables, backend=backend, evaluate=False)
            ]
            for arg, unit in zip(
                self.all_args(variables, backend=backend, evaluate=False), units
            ):
                if isinstance(arg, Expr):
                    if unit is not None:
                        raise ValueError()
                    _unit, _dedim = arg.dedimensionalisation(
                        unit_registry, variables, backend=backend
                    )
                else:
                    _unit, _dedim = unit, to_unitless(arg, unit)
                new_units.append(_unit)
                unitless_args.append(_dedim)
        instance = self.__class__(unitless_args, self.unique_keys)
        if self.argument_defaults is not None:
            instance.argument_defaults = tuple(
                unitless_in_registry(arg, unit_registry)
                for arg in self.argument_defaults
            )

        return new_units, instance

    def _sympy_format(self, method, variables, backend, default, **kwargs):
        variables = variables or {}
        if backend in (None, math):
            backend = sympy
        variables = defaultkeydict(
            None if default is None else (lambda k: backend.Symbol(default(k))),
            {
                k: v
                if isinstance(v, Expr)
                else (backend.Symbol(v) if isinstance(v, str) else backend.Float(v))
                for k, v in variables.items()
            },
        )
        expr = self(variables, backend=backend, **kwargs).simplify()
        if method == "latex":
            return backend.latex(expr)
        elif method == "str":
            return str(expr)
        elif method == "unicode":
            return backend.pretty(expr, use_unicode=True)
        elif method == "mathml":
            from sympy.printing.mathml import mathml

            return mathml(expr)
        else:
            raise NotImplementedError("Unknown method: %s" % method)

    def latex(self, variables=None, backend=math, default=None):
        r"""
        Parameters
        ----------
        variables : dict
        backend : module
        default : callable
            Format string based on missing key, signature: str -> str.

        Examples
        --------
        >>> def pressure(args, *params, **kw):
        ...     return args[0]*params[0]*params[1]/params[2]
        >>> Pressure = Expr.from_callback(pressure, parameter_keys='R temp vol'.split(), nargs=1)
        >>> p = Pressure([7])
        >>> p.latex({'R': 'R', 'temp': 'T', 'vol': 'V'})  # doctest: +SKIP
        '\\frac{7 R T}{V}'

        Notes
        -----
        Requires SymPy

        """
        return self._sympy_format("latex", variables, backend=backend, default=default)

    def __eq__(self, other):
        if self.__class__ != other.__class__:
            return False
        if self.args is None and other.args is None:
            for uk1, uk2 in zip(self.unique_keys, other.unique_keys):
                if uk1 != uk2:
                    return False
            return True
        if self.args is None or other.args is None:
            return False
        if len(self.args) != len(other.args):
            return False
        from ..units import compare_equality

        for arg0, arg1 in zip(self.args, other.args):
            if not compare_equality(arg0, arg1):
                return False
        return True

    def __add__(self, other):
        _other = _implicit_conversion(other)
        if _other.trivially_zero:
            return self
        return _AddExpr([self, _other])

    def __sub__(self, other):
        if other == other * 0:
            return self
        return _SubExpr([self, _implicit_conversion(other)])

    def __mul__(self, other):
        if other == 1:
            return self
        if isinstance(other, UnaryWrapper):
            return NotImplemented  # delegate to UnaryWrapper.__rmul__
        return _MulExpr([self, _implicit_conversion(other)])

    def __truediv__(self, other):
        if other == 1:
            return self
        if isinstance(other, UnaryWrapper):
            return NotImplemented  # delegate to UnaryWrapper.__rtruediv__
        return _DivExpr([self, _implicit_conversion(other)])

    def __neg__(self):
        if isinstance(self, _NegExpr):
            return self.args[0]
        return _NegExpr((self,))

    def __radd__(self, other):
        return self + other

    def __rmul__(self, other):
        return self * other

    def __rsub__(self, other):
        return (-self) + other

    def __rtruediv__(self, other):
        return _DivExpr([_implicit_conversion(other), self])

    def __pow__(self, other):
        return _PowExpr([self, _implicit_conversion(other)])

    def __rpow__(self, other):
        return _PowExpr([_implicit_conversion(other), self])


class UnaryWrapper(Expr):
    def __checks(self):
        if self.nargs != 1:
            raise ValueError("UnaryWrapper can only be used when nargs == 1")
        if self.unique_keys is not None:
            raise ValueError("UnaryWrapper can only be used when unique_keys are None")

    def __mul__(self, other):
        self.__checks()
        (arg,) = self.args
        return self.__class__([_MulExpr([arg, _implicit_conversion(other)])])

    def __truediv__(self, other):
        if other == 1:
            return self
        self.__checks()
        (arg,) = self.args
        return self.__class__([_DivExpr([arg, _implicit_conversion(other)])])

    def __rtruediv__(self, other):
        self.__checks()
        (arg,) = self.args
        return self.__class__([_DivExpr([_implicit_conversion(other), arg])])

    @classmethod
    def from_callback(cls, callback, attr="__call__", **kwargs):
        Wrapper = super().from_callback(callback, attr=attr, **kwargs)
        return lambda *args, **kw: cls(Wrapper(*args, **kw))


class _NegExpr(Expr):
    def _str(self, *args, **kwargs):
        return "-%s" % args[0]._str(*args, **kwargs)

    def __repr__(self):
        return super(_NegExpr, self)._str(repr)

    def __call__(self, variables, backend=math, **kwargs):
        (arg0,) = self.all_args(variables, backend=backend, **kwargs)
        return -arg0

    def rate_coeff(self, *args, **kwargs):  # <--- feature creep into base-class...
        return (-self.args[0].rate_coeff(*args, **kwargs),)


class _BinaryExpr(Expr):
    _op = None

    def _str(self, *args, **kwargs):
        return ("({0} %s {1})" % self._op_str).format(
            *[arg._str(*args, **kwargs) for arg in self.args]
        )

    def __repr__(self):
        return super(_BinaryExpr, self)._str(repr)

    def __call__(self, variables, backend=math, **kwargs):
        arg0, arg1 = self.all_args(variables, backend=backend, **kwargs)
        return self._op(arg0, arg1)

    def rate_coeff(self, *args, **kwargs):
        return self._op(
            self.args[0].rate_coeff(*args, **kwargs),
            self.args[1].rate_coeff(*args, **kwargs),
        )


class _AddExpr(_BinaryExpr):
    _op = add
    _op_str = "+"


class _SubExpr(_BinaryExpr):
    _op = sub
    _op_str = "-"


class _MulExpr(_BinaryExpr):
    _op = mul
    _op_str = "*"

    @property
    def trivially_zero(self):
        try:
            return self.args[0].trivially_zero or self.args[1].trivially_zero
        except Exception:
            return False


class _DivExpr(_BinaryExpr):
    _op = truediv
    _op_str = "/"


class _PowExpr(_BinaryExpr):
    _op = pow
    _op_str = "**"


class Constant(Expr):
    nargs = 1

    @property
    def trivially_zero(self):
        return self.args[0] == 0

    def __call__(self, variables, backend=None, **kwargs):
        return self.args[0]

    def rate_coeff(self, *args, **kwargs):
        return self.args[0]


class Symbol(Expr):
    nargs = 1

    def _str(self, *args, **kwargs):
        (uk,) = self.unique_keys
        return uk

    def __repr__(self):
        return super(Symbol, self)._str(repr)

    def __call__(self, variables, backend=None, **kwargs):
        (uk,) = self.unique_keys
        return variables[uk]


class Function(Expr):
    pass


class UnaryFunction(Function):
    nargs = 1
    _func_name = None

    def __call__(self, variables, backend=math, **kwargs):
        (arg,) = self.all_args(variables, backend=backend, **kwargs)
        return getattr(backend, self._func_name)(arg)

    def rate_coeff(self, *args, **kwargs):
        return getattr(kwargs.get("backend", math), self._func_name)(
            self.args[0].rate_coeff(*args, **kwargs)
        )


class BinaryFunction(Function):
    nargs = 2
    _func_name = None


class Log10(UnaryFunction):
    _func_name = "log10"


class Exp(UnaryFunction):
    _func_name = "exp"


def create_Piecewise(parameter_name, nan_fallback=False):
    """
    Examples
    --------
    >>> Power = Expr.from_callback(lambda args, x, backend=None: args[0]*x**args[1],
    ...     argument_names=('scale', 'pow'), parameter_keys=('x',))
    >>> minus_x = Power([-1, 1])
    >>> cube = Power([1, 3])
    >>> PW = create_Piecewise('x')
    >>> pw = PW([-float('inf'), minus_x, 0, cube, float('inf')])
    >>> pw({'x': -5}) == 5
    True
    >>> pw({'x': 2}) == 8
    True

    """

    def _pw(bounds_exprs, x, backend=math, **kwargs):
        if len(bounds_exprs) < 3:
            raise ValueError("Need at least 3 args")
        if len(bounds_exprs) % 2 != 1:
            raise ValueError("Need an odd number of bounds/exprs")
        n_exprs = (len(bounds_exprs) - 1) // 2
        lower = [bounds_exprs[2 * (i + 0)] for i in range(n_exprs)]
        upper = [bounds_exprs[2 * (i + 1)] for i in range(n_exprs)]
        exprs = [bounds_exprs[2 * i + 1] for i in range(n_exprs)]

        try:
            pw = backend.Piecewise
        except AttributeError:
            for lo, up, ex in zip(lower, upper, exprs):
                if lo <= x <= up:
                    return ex
            else:
                raise ValueError("not within any bounds: %s" % x)
        else:
            _NAN = backend.Symbol("NAN")
            return pw(
                *(
                    [
                        (ex, backend.And(lo <= x, x <= up))
                        for lo, up, ex in zip(lower, upper, exprs)
                    ]
                    + ([(_NAN, True)] if nan_fallback else [])
                )
            )

    return Expr.from_callback(_pw, parameter_keys=(parameter_name,))


def create_Poly(parameter_name, reciprocal=False, shift=None, name=None):
    """
    Examples
    --------
    >>> Poly = create_Poly('x')
    >>> p1 = Poly([3, 4, 5])
    >>> p1({'x': 7}) == 3 + 4*7 + 5*49
    True
    >>> RPoly = create_Poly('T', reciprocal=True)
    >>> p2 = RPoly([64, 32, 16, 8])
    >>> p2({'T': 2}) == 64 + 16 + 4 + 1
    True
    >>> SPoly = create_Poly('z', shift=True)
    >>> p3 = SPoly([7, 2, 3, 5], unique_keys=('z0',))
    >>> p3({'z': 9}) == 2 + 3*(9-7) + 5*(9-7)**2
    True
    >>> p3({'z': 9, 'z0': 6}) == 2 + 3*(9-6) + 5*(9-6)**2
    True

    """
    if shift is True:
        shift = "shift"

    def _poly(args, x, backend=math, **kwargs):

        if shift is None:
            coeffs = args
            x0 = x
        else:
            coeffs = args[1:]
            x_shift = args[0]
            x0 = x - x_shift

        cur = 1
        res = None
        for coeff in coeffs:
            if res is None:
                res = coeff * cur
            else:
                res += coeff * cur

            if reciprocal:
                cur /= x0
            else:
                cur *= x0
        return res

    if shift is None:
        argument_names = None
    else:
        argument_names = (shift, Ellipsis)
    if name is not None:
        _poly.__name__ = name
    return Expr.from_callback(
        _poly, parameter_keys=(parameter_name,), argument_names=argument_names
    )


from ._expr_deprecated import _mk_PiecewisePoly, _mk_Poly  # noqa

mk_PiecewisePoly = deprecated(use_instead=create_Piecewise)(_mk_PiecewisePoly)
mk_Poly = deprecated(use_instead=create_Poly)(_mk_Poly)
