# -*- coding: utf-8 -*-
import re


try:
    import numpy as np
except ImportError:
    np = None


# See https://github.com/python-quantities/python-quantities/pull/112
def format_units_html(udict, font="%s", mult=r"&sdot;", paren=False):
    """
    Replace the units string provided with an equivalent html string.

    Exponentiation (m**2) will be replaced with superscripts (m<sup>2</sup>})

    No formatting is done, change `font` argument to e.g.:
    '<span style="color: #0000a0">%s</span>' to have text be colored blue.

    Multiplication (*) are replaced with the symbol specified by the mult
    argument. By default this is the latex &sdot; symbol.  Other useful options
    may be '' or '*'.

    If paren=True, encapsulate the string in '(' and ')'

    """
    from quantities.markup import format_units

    res = format_units(udict)
    if res.startswith("(") and res.endswith(")"):
        # Compound Unit
        compound = True
    else:
        # Not a compound unit
        compound = False
    # Replace exponentiation (**exp) with ^{exp}
    res = re.sub(r"\*{2,2}(?P<exp>\d+)", r"<sup>\g<exp></sup>", res)
    # Remove multiplication signs
    res = re.sub(r"\*", mult, res)
    if paren and not compound:
        res = "(%s)" % res
    res = font % res
    return res


def _patch_pow0_py35(pq):
    try:
        pq.metre ** 0
    except Exception:
        pq.quantity.Quantity.__pow__ = pq.quantity.check_uniform(
            lambda self, other: np.power(self, other)
        )


def _patch_quantities(pq):
    # See https://github.com/python-quantities/python-quantities/pull/112
    if not hasattr(pq.dimensionality.Dimensionality, "html"):
        pq.dimensionality.Dimensionality.html = property(
            lambda self: format_units_html(self)
        )

    # See https://github.com/python-quantities/python-quantities/pull/116
    a = pq.UncertainQuantity([1, 2], pq.m, [0.1, 0.2])
    if (-a).uncertainty[0] != a.uncertainty[0]:
        pq.UncertainQuantity.__neg__ = lambda self: self * -1
    a = pq.UncertainQuantity([1, 2], pq.m, [0.1, 0.2])
    assert (-a).uncertainty[0] == (a * -1).uncertainty[0]

    # See https://github.com/python-quantities/python-quantities/pull/126
    _patch_pow0_py35(pq)
    assert (3 * pq.m) ** 0 == 1 * pq.dimensionless
