# -*- coding: utf-8 -*-
"""
Convenience functions for representing reaction systems as graphs.
"""
import os
import subprocess
import shutil
import tempfile


def rsys2dot(
    rsys,
    tex=False,
    rprefix="r",
    rref0=1,
    nodeparams='[label="{}",shape=diamond]',
    colors=("maroon", "darkgreen"),
    penwidths=None,
    include_inactive=True,
):
    """
    Returns list of lines of DOT (graph description language)
    formatted graph.

    Parameters
    ==========
    rsys: ReactionSystem
    tex: bool (default False)
        If set True, output will be LaTeX formatted
    (Substance need to have latex_name attribute set)
    rprefix: string
        Reaction enumeration prefix, default: r
    rref0: integer
        Reaction enumeration initial counter value, default: 1
    nodeparams: string
        DOT formatted param list, default: [label={} shape=diamond]

    Returns
    =======
    list of lines of DOT representation of the graph representation.

    """
    lines = ['digraph "' + str(rsys.name) + '" {\n']
    ind = "  "  # indentation
    if penwidths is None:
        penwidths = [1.0] * rsys.nr

    categories = rsys.categorize_substances(checks=())

    def add_substance(key):
        fc = "black"
        if key in categories["depleted"]:
            fc = colors[0]
        if key in categories["accumulated"]:
            fc = colors[1]
        label = ("$%s$" if tex else "%s") % getattr(
            rsys.substances[key], "latex_name" if tex else "name"
        )
        lines.append(
            ind
            + '"{key}" [fontcolor={fc} label="{lbl}"];\n'.format(
                key=key, fc=fc, lbl=label
            )
        )

    for sk in rsys.substances:
        add_substance(sk)

    def add_vertex(key, num, reac, penwidth):
        snum = str(num) if num > 1 else ""
        fmt = ",".join(
            ['label="{}"'.format(snum)]
            + (["penwidth={}".format(penwidth)] if penwidth != 1 else [])
        )
        lines.append(
            ind
            + '"{}" -> "{}" [color={},fontcolor={},{}];\n'.format(
                *(
                    (key, rid, colors[0], colors[0], fmt)
                    if reac
                    else (rid, key, colors[1], colors[1], fmt)
                )
            )
        )

    if include_inactive:
        reac_stoichs = rsys.all_reac_stoichs()
        prod_stoichs = rsys.all_prod_stoichs()
    else:
        reac_stoichs = rsys.active_reac_stoichs()
        prod_stoichs = rsys.active_prod_stoichs()

    for ri, rxn in enumerate(rsys.rxns):
        rid = rprefix + str(ri + rref0)
        lines.append(ind + "{")
        lines.append(ind * 2 + "node " + nodeparams.format(rxn.name or rid))
        lines.append(ind * 2 + rid)
        lines.append(ind + "}\n")
        for idx, key in enumerate(rsys.substances):
            num = reac_stoichs[ri, idx]
            if num == 0:
                continue
            add_vertex(key, num, True, penwidths[ri])
        for idx, key in enumerate(rsys.substances):
            num = prod_stoichs[ri, idx]
            if num == 0:
                continue
            add_vertex(key, num, False, penwidths[ri])
    lines.append("}\n")
    return lines


def rsys2graph(rsys, fname, output_dir=None, prog=None, save=False, **kwargs):
    """
    Convenience function to call `rsys2dot` and write output to file
    and render the graph

    Parameters
    ----------
    rsys : ReactionSystem
    fname : str
        filename
    output_dir : str (optional)
        path to directory (default: temporary directory)
    prog : str (optional)
        default: 'dot'
    save : bool
        removes temporary directory if False, default: False
    \\*\\*kwargs :
        Keyword arguments passed along to py:func:`rsys2dot`.

    Returns
    -------
    str
        Outpath

    Examples
    --------
    >>> rsys2graph(rsys, sbstncs, '/tmp/out.png')  # doctest: +SKIP

    """

    lines = rsys2dot(rsys, **kwargs)
    created_tempdir = False
    try:
        if output_dir is None:
            output_dir = tempfile.mkdtemp()
            created_tempdir = True
        basename, ext = os.path.splitext(os.path.basename(fname))
        outpath = os.path.join(output_dir, fname)
        dotpath = os.path.join(output_dir, basename + ".dot")
        with open(dotpath, "wt") as ofh:
            ofh.writelines(lines)
        if ext == ".tex":
            cmds = [prog or "dot2tex"]
        else:
            cmds = [prog or "dot", "-T" + outpath.split(".")[-1]]
        p = subprocess.Popen(cmds + [dotpath, "-o", outpath])
        retcode = p.wait()
        if retcode:
            fmtstr = "{}\n returned with exit status {}"
            raise RuntimeError(fmtstr.format(" ".join(cmds), retcode))
        return outpath
    finally:
        if save is True or save == "True":
            pass
        else:
            if save is False or save == "False":
                if created_tempdir:
                    shutil.rmtree(output_dir)
            else:
                # interpret save as path to copy pdf to.
                shutil.copy(outpath, save)
