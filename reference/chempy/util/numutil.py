# -*- coding: utf-8 -*-

try:
    import numpy as np
except ImportError:
    np = None


def broadcast_stack(*args, **kwargs):
    as_scalars = kwargs.pop("as_scalars", False)
    if kwargs != {}:
        raise ValueError("Got unknown kwargs: %s" % kwargs)
    args = [np.atleast_1d(arg) for arg in args]
    if as_scalars:
        args = [arg.reshape(arg.shape + (1,)) if arg.size > 1 else arg for arg in args]
    if all([arg.ndim == 1 for arg in args]):
        return np.concatenate(args)
    head_shape = ()
    leading_length = 0
    for arg in args:
        leading_length += arg.shape[-1]
        if arg.ndim > 1:
            if head_shape == ():
                head_shape = arg.shape[:-1]
            else:
                if arg.shape[:-1] != head_shape:
                    raise ValueError("Incompatible shapes")
    out = np.empty(head_shape + (leading_length,))
    for idx, arg in enumerate(args):
        if arg.shape[-1] != 1:
            raise ValueError("Trailing dimensions needs to be 1")
        out[..., idx] = arg[..., 0]
    return out
