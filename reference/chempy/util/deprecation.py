# -*- coding: utf-8 -*-

import warnings


class Deprecation(object):
    """Decorator factory for deprecating functions or classes.

    This class represent deprecations of functions or classes and is designed
    to be used with the ``warnings`` library.

    Parameters
    ----------
    last_supported_version : str, optional
        Version string, e.g. ``'0.2.1'``.
    will_be_missing_in : str, optional
        Version string, e.g. ``'0.3.0'``.
    use_instead : object or str, optional
        Function or class to use instead or descriptive string.
    issue : str, optional
    issues_url : callback, optional
        Converts issue to url, e.g. ``lambda s: 'https://github.com/user/repo/issues/%s/' % s.lstrip('gh-')``.
    warning: DeprecationWarning, optional
        Any subclass of DeprecationWarning, tip: you may invoke:
        ``warnings.simplefilter('once', MyWarning)`` at module init.

    Examples
    --------
    >>> import warnings
    >>> warnings.simplefilter("error", DeprecationWarning)
    >>> @Deprecation()
    ... def f():
    ...     return 1
    ...
    >>> f()  # doctest: +IGNORE_EXCEPTION_DETAIL
    Traceback (most recent call last):
    ...
    DeprecationWarning: f is deprecated.
    >>> @Deprecation(last_supported_version='0.4.0')
    ... def some_old_function(x):
    ...     return x*x - x
    ...
    >>> Deprecation.inspect(some_old_function).last_supported_version
    '0.4.0'
    >>> @Deprecation(will_be_missing_in='1.0')
    ... class ClumsyClass(object):
    ...     pass
    ...
    >>> Deprecation.inspect(ClumsyClass).will_be_missing_in
    '1.0'
    >>> warnings.resetwarnings()

    Notes
    -----
    :class:`DeprecationWarning` is ignored by default. Use custom warning
    and filter appropriately. Alternatively, run python with ``-W`` flag or set
    the appropriate environment variable:

    ::

        $ python -c 'import warnings as w; w.warn("X", DeprecationWarning)'
        $ python -Wd -c 'import warnings as w; w.warn("X", DeprecationWarning)'
        -c:1: DeprecationWarning: X
        $ export PYTHONWARNINGS=d
        $ python -c 'import warnings as w; w.warn("X", DeprecationWarning)'
        -c:1: DeprecationWarning: X

    """

    _deprecations = {}

    def __init__(
        self,
        last_supported_version=None,
        will_be_missing_in=None,
        use_instead=None,
        issue=None,
        issues_url=None,
        warning=DeprecationWarning,
    ):
        if (
            last_supported_version is not None
            and not isinstance(last_supported_version, (str, tuple, list))
            and callable(last_supported_version)
        ):
            raise ValueError("last_supported_version not str, tuple or list")

        self.last_supported_version = last_supported_version
        self.will_be_missing_in = will_be_missing_in
        self.use_instead = use_instead
        self.issue = issue
        self.issues_url = issues_url
        self.warning = warning
        self.warning_message = self._warning_message_template()

    @classmethod
    def inspect(cls, obj):
        """Get the :class:`Deprecation` instance of a deprecated function."""
        return cls._deprecations[obj]

    def _warning_message_template(self):
        msg = "%(func_name)s is deprecated"
        if self.last_supported_version is not None:
            msg += " since (not including) % s" % self.last_supported_version
        if self.will_be_missing_in is not None:
            msg += ", it will be missing in %s" % self.will_be_missing_in
        if self.issue is not None:
            if self.issues_url is not None:
                msg += self.issues_url(self.issue)
            else:
                msg += " (see issue %s)" % self.issue
        if self.use_instead is not None:
            try:
                msg += ". Use %s instead" % self.use_instead.__name__
            except AttributeError:
                msg += ". Use %s instead" % self.use_instead
        return msg + "."

    def __call__(self, wrapped):
        """Decorates function to be deprecated"""
        msg = self.warning_message % {"func_name": wrapped.__name__}
        wrapped_doc = wrapped.__doc__ or ""
        if hasattr(wrapped, "__mro__"):  # wrapped is a class

            class _Wrapper(wrapped):
                __doc__ = msg + "\n\n" + wrapped_doc

                def __init__(_self, *args, **kwargs):
                    warnings.warn(msg, self.warning, stacklevel=2)
                    wrapped.__init__(_self, *args, **kwargs)

        else:  # wrapped is a function

            def _Wrapper(*args, **kwargs):
                warnings.warn(msg, self.warning, stacklevel=2)
                return wrapped(*args, **kwargs)

            _Wrapper.__doc__ = msg + "\n\n" + wrapped_doc

        self._deprecations[_Wrapper] = self
        _Wrapper.__name__ = wrapped.__name__
        _Wrapper.__module__ = wrapped.__module__
        return _Wrapper
