# -*- coding: utf-8 -*-

from functools import reduce
import math
from operator import add

from ._expr import Expr


def _eval_poly(x, offset, coeffs, reciprocal=False):
    _x0 = x - offset
    _x = _x0 / _x0
    res = None
    for coeff in coeffs:
        if res is None:
            res = coeff * _x
        else:
            res += coeff * _x

        if reciprocal:
            _x /= _x0
        else:
            _x *= _x0
    return res


def _mk_Poly(parameter_name, reciprocal=False, shift_name="shift"):
    """Class factory of Expr subclass for (shifted) polynomial

    Parameters
    ----------
    parameter: str
        name of parameter
    reciprocal: bool
        whether the polynomial is in the reciprocal of the parameter

    Returns
    -------
    Expr subclass for a shifted polynomial with the args: offset, p0, p1, ...
    the class has the method "eval_poly" with same signature as __call__


    Examples
    --------
    >>> P = _mk_Poly('x')
    >>> p = P([3, 5, 7, 2])
    >>> p.eval_poly({'x': 13}) == 5 + 7*(13-3) + 2*(13-3)**2
    True

    """

    class Poly(Expr):
        """Args: shift, p0, p1, ..."""

        argument_names = (shift_name, Ellipsis)
        parameter_keys = (parameter_name,)
        skip_poly = 0

        def eval_poly(self, variables, backend=math):
            all_args = self.all_args(variables, backend=backend)
            x = variables[parameter_name]
            offset, coeffs = all_args[self.skip_poly], all_args[self.skip_poly + 1 :]
            return _eval_poly(x, offset, coeffs, reciprocal)

    return Poly


def _mk_PiecewisePoly(parameter, reciprocal=False):
    """Class factory of Expr subclass for piecewise (shifted) polynomial"""

    class PiecewisePoly(Expr):
        """Args: npolys, ncoeff0, lower0, upper0, ncoeff1, ..., shift0, p0_0, p0_1, ... shiftn, p0_n, p1_n, ..."""

        argument_names = ("npolys", Ellipsis)
        parameter_keys = (parameter,)
        skip_poly = 0

        def eval_poly(self, variables, backend=math):
            all_args = self.all_args(variables, backend=backend)[self.skip_poly :]
            npoly = all_args[0]
            arg_idx = 1
            poly_args = []
            meta = []
            for poly_idx in range(npoly):
                meta.append(all_args[arg_idx : arg_idx + 3])  # nargs, lower, upper
                arg_idx += 3
            for poly_idx in range(npoly):
                narg = 1 + meta[poly_idx][0]
                poly_args.append(all_args[arg_idx : arg_idx + narg])
                arg_idx += narg
            if arg_idx != len(all_args):
                raise Exception("Bug in PiecewisePoly.eval_poly")

            x = variables[parameter]
            try:
                pw = backend.Piecewise
            except AttributeError:
                for (ncoeff, lower, upper), args in zip(meta, poly_args):
                    if lower <= x <= upper:
                        return _eval_poly(x, args[0], args[1:], reciprocal)
                else:
                    raise ValueError("not within any bounds: %s" % str(x))
            else:
                return pw(
                    *[
                        (
                            _eval_poly(x, a[0], a[1:], reciprocal),
                            backend.And(l <= x, x <= u),
                        )
                        for (n, l, u), a in zip(meta, poly_args)
                    ]
                )

        @classmethod
        def from_polynomials(cls, bounds, polys, inject=[], **kwargs):
            if any(p.parameter_keys != (parameter,) for p in polys):
                raise ValueError("Mixed parameter_keys")
            npolys = len(polys)
            if len(bounds) != npolys:
                raise ValueError("Length mismatch")

            meta = reduce(
                add,
                [
                    [len(p.args[p.skip_poly :]) - 1, l, u]
                    for (l, u), p in zip(bounds, polys)
                ],
            )
            p_args = reduce(add, [p.args[p.skip_poly :] for p in polys])
            return cls(inject + [npolys] + meta + p_args, **kwargs)

    return PiecewisePoly
