# -*- coding: utf-8 -*-
""" The units module provides the following attributes:

- ``chempy.units.default_units``
- ``chempy.units.default_constants``
- ``chempy.units.SI_base_registry``

together with some functions.

Currently `quantities <https://pypi.python.org/pypi/quantities>`_ is used as
the underlying package to handle units. If it is possible you should try to
only use the ``chempy.units`` module (since it is likely that ``ChemPy``
will change this backend at some point in the future). Therefore you should not
rely on any attributes of the ``Quantity`` instances (and rather use
getter & setter functions in `chempy.units`).

"""

from functools import reduce
from operator import mul
import sys
import warnings

from .util.arithmeticdict import ArithmeticDict
from .util.pyutil import NameSpace, deprecated

units_library = "quantities"  # info used for selective testing.


try:
    pq = __import__(units_library)
except ImportError:
    UncertainQuantity = None
    default_constants = None
    default_units = None
    SI_base_registry = None
    np = None
else:
    import numpy as np
    from .util._quantities import _patch_quantities

    _patch_quantities(pq)
    UncertainQuantity = pq.UncertainQuantity
    # Let us extend the underlying pq namespace with some common units in
    # chemistry
    default_constants = NameSpace(pq.constants)

    default_units = NameSpace(pq)
    default_units.dm = default_units.decimetre = pq.UnitQuantity(
        "decimetre", default_units.m / 10.0, u_symbol="dm"
    )
    default_units.m3 = default_units.metre ** 3
    default_units.dm3 = default_units.decimetre ** 3
    default_units.cm3 = default_units.centimetre ** 3
    if not hasattr(default_units, "molar"):
        default_units.molar = pq.UnitQuantity(
            "M", 1e3 * default_units.mole / default_units.m3, u_symbol="M"
        )
    if not hasattr(default_units, "millimolar"):
        default_units.millimolar = pq.UnitQuantity(
            "mM", 1 * default_units.mole / default_units.m3, u_symbol="mM"
        )
    if not hasattr(default_units, "micromolar"):
        default_units.micromolar = pq.UnitQuantity(
            "uM", 1e-3 * default_units.mole / default_units.m3, u_symbol="μM"
        )
    if not hasattr(default_units, "nanomolar"):
        default_units.nanomolar = pq.UnitQuantity(
            "nM", 1e-6 * default_units.mole / default_units.m3, u_symbol="nM"
        )
    if not hasattr(default_units, "molal"):
        default_units.molal = pq.UnitQuantity(
            "molal", default_units.mole / default_units.kg, u_symbol="molal"
        )
    if not hasattr(default_units, "per100eV"):
        default_units.per100eV = pq.UnitQuantity(
            "per100eV",
            1 / (100 * default_units.eV * default_constants.Avogadro_constant),
            u_symbol="(100eV)**-1",
        )
    if not hasattr(default_units, "micromole"):
        default_units.micromole = pq.UnitQuantity(
            "micromole", pq.mole / 1e6, u_symbol="μmol"
        )
    if not hasattr(default_units, "nanomole"):
        default_units.nanomole = pq.UnitQuantity(
            "nanomole", pq.mole / 1e9, u_symbol="nmol"
        )
    if not hasattr(default_units, "kilojoule"):
        default_units.kilojoule = pq.UnitQuantity(
            "kilojoule", 1e3 * pq.joule, u_symbol="kJ"
        )
    if not hasattr(default_units, "kilogray"):
        default_units.kilogray = pq.UnitQuantity(
            "kilogray", 1e3 * pq.gray, u_symbol="kGy"
        )
    if not hasattr(default_units, "perMolar_perSecond"):
        default_units.perMolar_perSecond = 1 / default_units.molar / pq.s
    if not hasattr(default_units, "umol"):
        default_units.umol = default_units.micromole
    if not hasattr(default_units, "umol_per_J"):
        default_units.umol_per_J = default_units.umol / pq.joule

    # unit registry data and logic:

    SI_base_registry = {
        "length": default_units.metre,
        "mass": default_units.kilogram,
        "time": default_units.second,
        "current": default_units.ampere,
        "temperature": default_units.kelvin,
        "luminous_intensity": default_units.candela,
        "amount": default_units.mole,
    }


def magnitude(value):
    try:
        return value.magnitude
    except AttributeError:
        return value


def uncertainty(uval):
    uncert = uval.uncertainty
    if not is_quantity(uncert):
        warnings.warn(f"Handling unexpected type: {type(uval)}")
    return uncert


def simplified(value):
    if hasattr(value, "simplified"):
        return value.simplified
    else:
        return to_unitless(value)


def is_quantity(arg):
    if arg.__class__.__name__ == "Quantity":
        return True  # this checks works even if quantities is not installed.
    else:
        return False


# SI Base Quantities:
time = ArithmeticDict(int, {"time": 1})
length = ArithmeticDict(int, {"length": 1})
mass = ArithmeticDict(int, {"mass": 1})
current = ArithmeticDict(int, {"current": 1})
temperature = ArithmeticDict(int, {"temperature": 1})
amount = ArithmeticDict(int, {"amount": 1})
# intensity = ArithmeticDict(int, {'intensity': 1}) what's wrong with photon flux? (human eyes, bah!)

energy = ArithmeticDict(int, {"mass": 1, "length": 2, "time": -2})
volume = ArithmeticDict(int, {"length": 3})
concentration = {"amount": 1} - volume


def get_derived_unit(registry, key):
    """Get the unit of a physical quantity in a provided unit system.

    Parameters
    ----------
    registry: dict (str: unit)
        mapping 'length', 'mass', 'time', 'current', 'temperature',
        'luminous_intensity', 'amount'. If registry is ``None`` the
        function returns 1.0 unconditionally.
    key: str
        one of the registry keys or one of: 'diffusivity', 'electricalmobility',
        'permittivity', 'charge', 'energy', 'concentration', 'density',
        'radiolytic_yield'.

    Examples
    --------
    >>> m, s = default_units.meter, default_units.second
    >>> get_derived_unit(SI_base_registry, 'diffusivity') == m**2/s
    True

    """
    if registry is None:
        return 1.0
    derived = {
        "diffusivity": registry["length"] ** 2 / registry["time"],
        "electrical_mobility": (
            registry["current"] * registry["time"] ** 2 / registry["mass"]
        ),
        "permittivity": (
            registry["current"] ** 2
            * registry["time"] ** 4
            / (registry["length"] ** 3 * registry["mass"])
        ),
        "charge": registry["current"] * registry["time"],
        "energy": registry["mass"] * registry["length"] ** 2 / registry["time"] ** 2,
        "concentration": registry["amount"] / registry["length"] ** 3,
        "density": registry["mass"] / registry["length"] ** 3,
    }
    derived["diffusion"] = derived["diffusivity"]  # 'diffusion' is deprecated
    derived["radiolytic_yield"] = registry["amount"] / derived["energy"]
    derived["doserate"] = derived["energy"] / registry["mass"] / registry["time"]
    derived["linear_energy_transfer"] = derived["energy"] / registry["length"]

    try:
        return derived[key]
    except KeyError:
        return registry[key]


def unit_registry_to_human_readable(unit_registry):
    """Serialization of a unit registry."""
    if unit_registry is None:
        return None
    new_registry = {}
    integer_one = 1
    for k in SI_base_registry:
        if unit_registry[k] is integer_one:
            new_registry[k] = 1, 1
        else:
            dim_list = list(unit_registry[k].dimensionality)
            if len(dim_list) != 1:
                raise TypeError("Compound units not allowed: {}".format(dim_list))
            u_symbol = dim_list[0].u_symbol
            new_registry[k] = float(unit_registry[k]), u_symbol
    return new_registry


def _latex_from_dimensionality(dim):
    # see https://github.com/python-quantities/python-quantities/issues/148
    from quantities.markup import format_units_latex

    return format_units_latex(dim, mult=r"\\cdot")


def latex_of_unit(quant):
    """Returns LaTeX representation of the unit of a quantity

    Examples
    --------
    >>> print(latex_of_unit(1/default_units.kelvin))
    \\mathrm{\\frac{1}{K}}

    """
    return _latex_from_dimensionality(quant.dimensionality).strip("$")


def unicode_of_unit(quant):
    """Returns unicode representation of the unit of a quantity

    Examples
    --------
    >>> print(unicode_of_unit(1/default_units.kelvin))
    1/K

    """
    return quant.dimensionality.unicode


def html_of_unit(quant):
    """Returns HTML representation of the unit of a quantity

    Examples
    --------
    >>> print(html_of_unit(2*default_units.m**2))
    m<sup>2</sup>

    """
    return quant.dimensionality.html


def unit_registry_from_human_readable(unit_registry):
    """Deserialization of unit_registry."""
    if unit_registry is None:
        return None
    new_registry = {}
    for k in SI_base_registry:
        factor, u_symbol = unit_registry[k]
        if u_symbol == 1:
            unit_quants = [1]
        else:
            unit_quants = list(pq.Quantity(0, u_symbol).dimensionality.keys())

        if len(unit_quants) != 1:
            raise TypeError("Unknown UnitQuantity: {}".format(unit_registry[k]))
        else:
            new_registry[k] = factor * unit_quants[0]
    return new_registry


# Abstraction of underlying package providing units and dimensional analysis:


def is_unitless(expr):
    """Returns ``True`` if ``expr`` is unitless, otherwise ``False``

    Examples
    --------
    >>> is_unitless(42)
    True
    >>> is_unitless(42*default_units.kilogram)
    False

    """
    if hasattr(expr, "dimensionality"):
        if expr.dimensionality == pq.dimensionless:
            return True
        else:
            return expr.simplified.dimensionality == pq.dimensionless.dimensionality
    if isinstance(expr, dict):
        return all(is_unitless(_) for _ in expr.values())
    elif isinstance(expr, (tuple, list)):
        return all(is_unitless(_) for _ in expr)
    return True


def unit_of(expr, simplified=False):
    """Returns the unit of a quantity

    Examples
    --------
    >>> unit_of(42*pq.second) == unit_of(12*pq.second)
    True
    >>> unit_of(42)
    1

    """
    if isinstance(expr, (tuple, list)):
        return unit_of(uniform(expr)[0], simplified)
    elif isinstance(expr, dict):
        return unit_of(list(uniform(expr).values())[0], simplified)

    try:
        if simplified:
            return expr.units.simplified
        else:
            return expr.units
    except AttributeError:
        return 1


def rescale(value, unit):
    try:
        return value.rescale(unit)
    except AttributeError:
        if unit == 1:
            return value
        else:
            raise


def to_unitless(value, new_unit=None):
    """Nondimensionalization of a quantity.

    Parameters
    ----------
    value: quantity
    new_unit: unit

    Examples
    --------
    >>> '%.1g' % to_unitless(1*default_units.metre, default_units.nm)
    '1e+09'
    >>> '%.1g %.1g' % tuple(to_unitless([1*default_units.m, 1*default_units.mm], default_units.nm))
    '1e+09 1e+06'

    """
    integer_one = 1
    if new_unit is None:
        new_unit = pq.dimensionless

    if isinstance(value, (list, tuple)):
        return np.array([to_unitless(elem, new_unit) for elem in value])
    elif isinstance(value, np.ndarray) and not hasattr(value, "rescale"):
        if is_unitless(new_unit) and new_unit == 1 and value.dtype != object:
            return value
        return np.array([to_unitless(elem, new_unit) for elem in value])
    elif isinstance(value, dict):
        new_value = dict(value.items())  # value.copy()
        for k in value:
            new_value[k] = to_unitless(value[k], new_unit)
        return new_value
    elif (
        isinstance(value, (int, float)) and new_unit is integer_one or new_unit is None
    ):
        return value
    elif isinstance(value, str):
        raise ValueError("str not supported")
    else:
        try:
            try:
                mag = magnitude(value)
                unt = unit_of(value)
                conv = rescale(unt/new_unit, pq.dimensionless)
                result = np.array(mag)*conv
            except AttributeError:
                if new_unit == pq.dimensionless:
                    return value
                else:
                    raise
            else:
                if result.ndim == 0:
                    return float(result)
                else:
                    return np.asarray(result)
        except TypeError:
            return np.array([to_unitless(elem, new_unit) for elem in value])


def uniform(container):
    """Turns a list, tuple or dict with mixed units into one with uniform units.

    Parameters
    ----------
    container : tuple, list or dict

    Examples
    --------
    >>> km, m = default_units.kilometre, default_units.metre
    >>> uniform(dict(a=3*km, b=200*m))  # doctest: +SKIP
    {'b': array(200.0) * m, 'a': array(3000.0) * m}

    """
    if isinstance(container, (tuple, list)):
        unit = unit_of(container[0])
    elif isinstance(container, dict):
        unit = unit_of(list(container.values())[0])
        return container.__class__(
            [(k, to_unitless(v, unit) * unit) for k, v in container.items()]
        )
    else:
        return container
    return to_unitless(container, unit) * unit


def get_physical_dimensionality(value):
    if is_unitless(value):
        return {}
    _quantities_mapping = {
        pq.UnitLength: "length",
        pq.UnitMass: "mass",
        pq.UnitTime: "time",
        pq.UnitCurrent: "current",
        pq.UnitTemperature: "temperature",
        pq.UnitLuminousIntensity: "luminous_intensity",
        pq.UnitSubstance: "amount",
    }
    return {
        _quantities_mapping[k.__class__]: v
        for k, v in uniform(value).simplified.dimensionality.items()
    }


@deprecated(use_instead=get_physical_dimensionality, will_be_missing_in="0.8.0")
def get_physical_quantity(value):
    return get_physical_dimensionality(value)


def _get_unit_from_registry(dimensionality, registry):
    return reduce(mul, [registry[k] ** v for k, v in dimensionality.items()])


def default_unit_in_registry(value, registry):
    _dimensionality = get_physical_dimensionality(value)
    if _dimensionality == {}:
        return 1
    return _get_unit_from_registry(_dimensionality, registry)


def unitless_in_registry(value, registry):
    _default_unit = default_unit_in_registry(value, registry)
    return to_unitless(value, _default_unit)


# NumPy like functions for compatibility:


def compare_equality(a, b):
    """Returns True if two arguments are equal.

    Both arguments need to have the same dimensionality.

    Parameters
    ----------
    a : quantity
    b : quantity

    Examples
    --------
    >>> km, m = default_units.kilometre, default_units.metre
    >>> compare_equality(3*km, 3)
    False
    >>> compare_equality(3*km, 3000*m)
    True

    """
    # Work around for https://github.com/python-quantities/python-quantities/issues/146
    try:
        a + b
    except TypeError:
        # We might be dealing with e.g. None (None + None raises TypeError)
        try:
            len(a)
        except TypeError:
            # Assumed scalar
            return a == b
        else:
            if len(a) != len(b):
                return False
            return all(compare_equality(_a, _b) for _a, _b in zip(a, b))
    except ValueError:
        return False
    else:
        return a == b


def allclose(a, b, rtol=1e-8, atol=None):
    """Analogous to ``numpy.allclose``."""
    if a.__class__.__name__ == "UncertainQuantity":
        return allclose(pq.Quantity(a), b, rtol=rtol, atol=atol)
    if b.__class__.__name__ == "UncertainQuantity":
        return allclose(a, pq.Quantity(b), rtol=rtol, atol=atol)

    try:
        d = abs(a - b)
    except Exception:
        try:
            if len(a) == len(b):
                return all(allclose(_a, _b, rtol, atol) for _a, _b in zip(a, b))
            else:
                return False
        except Exception:
            return False
    lim = abs(a) * rtol
    if atol is not None:
        lim += atol

    try:
        len(d)
    except TypeError:
        return d <= lim
    else:
        try:
            len(lim)
        except TypeError:
            return np.all([_d <= lim for _d in d])
        else:
            return np.all([_d <= _lim for _d, _lim in zip(d, lim)])


def linspace(start, stop, num=50):
    """Analogous to ``numpy.linspace``.

    Examples
    --------
    >>> abs(linspace(2, 8, num=3)[1] - 5) < 1e-15
    True

    """

    # work around for quantities v0.10.1 and NumPy
    unit = unit_of(start)
    start_ = to_unitless(start, unit)
    stop_ = to_unitless(stop, unit)
    return np.linspace(start_, stop_, num) * unit


def logspace_from_lin(start, stop, num=50):
    """Logarithmically spaced data points

    Examples
    --------
    >>> abs(logspace_from_lin(2, 8, num=3)[1] - 4) < 1e-15
    True

    """
    unit = unit_of(start)
    start_ = np.log2(to_unitless(start, unit))
    stop_ = np.log2(to_unitless(stop, unit))
    return np.exp2(np.linspace(start_, stop_, num)) * unit


def _sum(iterable):
    try:
        result = next(iterable)
    except TypeError:
        result = iterable[0]
        for elem in iterable[1:]:
            result += elem
        return result
    else:
        try:
            while True:
                result += next(iterable)
        except StopIteration:
            return result
        else:
            raise ValueError("Not sure how this point was reached")


class Backend(object):
    """Wrapper around modules such as numpy and math

    Instances of Backend wraps a module, e.g. `numpy` and ensures that
    arguments passed on are unitless, i.e. it raises an error if a
    transcendental function is used with quantities with units.

    Parameters
    ----------
    underlying_backend : module, str or tuple of str
        e.g. 'numpy' or ('sympy', 'math')

    Examples
    --------
    >>> import math
    >>> km, m = default_units.kilometre, default_units.metre
    >>> math.exp(3*km) == math.exp(3*m)
    True
    >>> be = Backend('math')
    >>> be.exp(3*km)
    Traceback (most recent call last):
        ...
    ValueError: Unable to convert between units of "km" and "dimensionless"
    >>> import numpy as np
    >>> np.sum([1000*pq.metre/pq.kilometre, 1])
    1001.0
    >>> be_np = Backend(np)
    >>> be_np.sum([[1000*pq.metre/pq.kilometre, 1], [3, 4]], axis=1)
    array([2., 7.])

    """

    def __init__(self, underlying_backend=("numpy", "math")):
        if isinstance(underlying_backend, tuple):
            for name in underlying_backend:
                try:
                    self.be = __import__(name)
                except ImportError:
                    continue
                else:
                    break
            else:
                raise ValueError("Could not import any of %s" % str(underlying_backend))
        elif isinstance(underlying_backend, str):
            self.be = __import__(underlying_backend)
        else:
            self.be = underlying_backend

    def __getattr__(self, attr):
        be_attr = getattr(self.be, attr)
        if callable(be_attr):
            return lambda *args, **kwargs: be_attr(*map(to_unitless, args), **kwargs)
        else:
            return be_attr


# TODO: decide whether to deprecate in favor of "number_to_scientific_latex"?
def format_string(value, precision="%.5g", tex=False):
    """Formats a scalar with unit as two strings

    Parameters
    ----------
    value: float with unit
    precision: str
    tex: bool
       LaTeX formatted or not? (no '$' signs)

    Examples
    --------
    >>> print(' '.join(format_string(0.42*default_units.mol/default_units.decimetre**3)))
    0.42 mol/decimetre**3
    >>> print(' '.join(format_string(2/default_units.s, tex=True)))
    2 \\mathrm{\\frac{1}{s}}

    """
    if tex:
        unit_str = latex_of_unit(value)
    else:
        from quantities.markup import config

        attr = "unicode" if config.use_unicode else "string"
        unit_str = getattr(value.dimensionality, attr)
    return precision % float(value.magnitude), unit_str


def concatenate(arrays, **kwargs):
    """Patched version of numpy.concatenate

    Examples
    --------
    >>> from chempy.units import default_units as u
    >>> all(concatenate(([2, 3]*u.s, [4, 5]*u.s)) == [2, 3, 4, 5]*u.s)
    True

    """
    unit = unit_of(arrays[0])
    result = np.concatenate([to_unitless(arr, unit) for arr in arrays], **kwargs)
    return result * unit


def tile(array, *args, **kwargs):
    """Patched version of numpy.tile (with support for units)"""
    try:
        elem = array[0, ...]
    except TypeError:
        elem = array[0]

    unit = unit_of(elem)
    result = np.tile(to_unitless(array, unit), *args, **kwargs)
    return result * unit


def polyfit(x, y, deg, **kwargs):
    u_x = unit_of(x[0])
    u_y = unit_of(y[0])
    _x, _y = to_unitless(x, u_x), to_unitless(y, u_y)
    p = np.polyfit(_x, _y, deg)
    return [v * u_y * u_x ** (i - deg) for i, v in enumerate(p)]


def polyval(p, x):
    try:
        u_x = unit_of(x[0])
    except (TypeError, IndexError):
        u_x = unit_of(x)
    u_y = unit_of(p[-1])
    deg = len(p) - 1
    _p = [to_unitless(v, u_y * u_x ** (i - deg)) for i, v in enumerate(p)]
    _x = to_unitless(x, u_x)
    _y = np.polyval(_p, _x)
    return _y * u_y


def _wrap_numpy(k):
    numpy_func = getattr(np, k)
    if sys.version_info[0] > 2:
        from functools import wraps
    else:

        def wraps(_meta_fun):
            return lambda x: x  # py2: numpy.ufunc lacks "__module__"

    @wraps(numpy_func)
    def f(*args, **kwargs):
        return numpy_func(*map(to_unitless, args), **kwargs)

    return f


if np is None:
    patched_numpy = None
else:
    patched_numpy = NameSpace(np)
    patched_numpy.allclose = allclose
    patched_numpy.concatenate = concatenate
    patched_numpy.linspace = linspace
    patched_numpy.tile = tile
    patched_numpy.polyfit = polyfit
    patched_numpy.polyval = polyval
    for k in "log log10 log2 log1p exp expm1 logaddexp logaddexp2".split():
        setattr(patched_numpy, k, _wrap_numpy(k))


def fold_constants(arg):
    if hasattr(arg, "dimensionality"):
        m = arg.magnitude
        d = 1
        for k, v in arg.dimensionality.items():
            if isinstance(k, pq.UnitConstant):
                m = m * k.simplified ** v
            else:
                d = d * k ** v
        return m * d
    else:
        return arg
