# -*- coding: utf-8 -*-
"""
Module for dealing with constants `Henry's law
<https://en.wikipedia.org/wiki/Henry's_law>`_.
"""

from ._util import get_backend
from .util.pyutil import defaultnamedtuple, deprecated
from .units import default_units


def Henry_H_at_T(T, H, Tderiv, T0=None, units=None, backend=None):
    """Evaluate Henry's constant H at temperature T

    Parameters
    ----------
    T: float
        Temperature (with units), assumed to be in Kelvin if ``units == None``
    H: float
        Henry's constant
    Tderiv: float (optional)
        dln(H)/d(1/T), assumed to be in Kelvin if ``units == None``.
    T0: float
        Reference temperature, assumed to be in Kelvin if ``units == None``
        default: 298.15 K
    units: object (optional)
        object with attributes: kelvin (e.g. chempy.units.default_units)
    backend : module (optional)
        module with "exp", default: numpy, math

    """
    be = get_backend(backend)
    if units is None:
        K = 1
    else:
        K = units.Kelvin
    if T0 is None:
        T0 = 298.15 * K
    return H * be.exp(Tderiv * (1 / T - 1 / T0))


class Henry(defaultnamedtuple("Henry", "Hcp Tderiv T0 ref", [None, None])):
    """Henry's gas constant

    Note that the reference temperature
    is set by the attribute :py:attr:`T0` which defaults to
    298.15 (Kelvin).

    Parameters
    ----------
    Hcp: float
        Henry's constant [M/atm]
    Tderiv: float
        dln(kH)/d(1/T) [K]
        Equivalent to $\\Delta_{soln}H / R$
    ref: object
        Reference for origin of parameters
    units: object (optional)
        object with attributes: kelvin

    Examples
    --------
    >>> H_H2 = Henry(1.2e-3, 1800, ref='carpenter_1966')
    >>> '%.2g' % H_H2(298.15)
    '0.0012'

    """

    def __call__(self, T, units=None, backend=None):
        """Evaluates Henry's constant for provided temperature"""
        return Henry_H_at_T(
            T, self.Hcp, self.Tderiv, self.T0, units=units, backend=backend
        )

    @deprecated("0.3.1", "0.5.0", __call__)
    def get_kH_at_T(self, *args, **kwargs):
        return self(*args, **kwargs)

    def get_c_at_T_and_P(self, T, P, **kwargs):
        """Convenience method for calculating concentration

        Calculate what concentration is needed to achieve a given partial
        pressure at a specified temperature

        Parameters
        ----------
        T: float
            Temperature
        P: float
            Pressure
        \\*\\*kwargs:
            Keyword arguments passed on to :meth:`__call__`

        """
        return P * self(T, **kwargs)

    def get_P_at_T_and_c(self, T, c, **kwargs):
        """Convenience method for calculating concentration

        Calculate the partial pressure for given temperature and concentration


        Parameters
        ----------
        T: float
            Temperature
        P: float
            Pressure
        \\*\\*kwargs:
            Keyword arguments passed on to :meth:`__call__`
        """
        return c / self(T, **kwargs)


class HenryWithUnits(Henry):
    """Analogous to :class:`Henry`

    Examples
    --------
    >>> from chempy.units import to_unitless, default_units as u
    >>> H_CO = HenryWithUnits(9.7e-6 * u.mol/u.m**3/u.Pa, 1300*u.K, ref='sander_2015')
    >>> '%.2g' % to_unitless(H_CO(298.15 * u.K), u.molar/u.bar)
    '0.00097'

    """

    def __call__(self, T, units=default_units, backend=None):
        """Evaluates Henry's constant for provided temperature"""
        return super(HenryWithUnits, self).__call__(T, units, backend)
