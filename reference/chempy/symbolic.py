# -*- coding: utf-8 -*-


from .util.pyutil import AttributeContainer


def get_constant_symbols(Symbol=None):
    if Symbol is None:
        from sympy import Symbol
    consts = [
        ("Faraday_constant", "F"),
        ("Avogadro_constant", "N_A"),
        ("vacuum_permittivity", "epsilon_0"),
        ("Boltzmann_constant", "k_B"),
        ("pi", "pi"),
        ("molar_gas_constant", "R"),
    ]
    return AttributeContainer(**{k: Symbol(v) for k, v in consts})
