# -*- coding: utf-8 -*-
"""
This module contains functions for formulating systems of Ordinary Differential
Equations (ODE-systems) which may be integrated numerically to model temporal
evolution of concentrations in reaction systems.
"""

from collections import OrderedDict
from functools import reduce, partial
from itertools import chain
from operator import attrgetter, mul
import math
import warnings

try:
    import numpy as np
except ImportError:
    np = None

from ..units import (
    to_unitless,
    get_derived_unit,
    rescale,
    magnitude,
    unitless_in_registry,
    default_unit_in_registry,
    default_units as u,
)
from ..util.pyutil import deprecated
from ..util._expr import Expr, Symbol
from .rates import RateExpr, MassAction


def _get_derived_unit(reg, key):
    try:
        return get_derived_unit(reg, key)
    except KeyError:
        return get_derived_unit(reg, "_".join(key.split("_")[:-1]))


def law_of_mass_action_rates(conc, rsys, variables=None):
    """Returns a generator of reaction rate expressions

    Rates from the law of mass action (:attr:`Reaction.inact_reac` ignored)
    from a :class:`ReactionSystem`.

    Parameters
    ----------
    conc : array_like
        concentrations (floats or symbolic objects)
    rsys : ReactionSystem instance
        See :class:`ReactionSystem`
    variables : dict (optional)
        to override parameters in the rate expressions of the reactions

    Examples
    --------
    >>> from chempy import ReactionSystem, Reaction
    >>> line, keys = 'H2O -> H+ + OH- ; 1e-4', 'H2O H+ OH-'
    >>> rxn = Reaction.from_string(line, keys)
    >>> rsys = ReactionSystem([rxn], keys)
    >>> next(law_of_mass_action_rates([55.4, 1e-7, 1e-7], rsys))
    0.00554
    >>> from chempy.kinetics.rates import Arrhenius, MassAction
    >>> rxn.param = MassAction(Arrhenius({'A': 1e10, 'Ea_over_R': 9314}))
    >>> print('%.5g' % next(law_of_mass_action_rates([55.4, 1e-7, 1e-7], rsys, {'temperature': 293})))
    0.0086693

    """
    for idx_r, rxn in enumerate(rsys.rxns):
        if isinstance(rxn.param, RateExpr):
            if isinstance(rxn.param, MassAction):
                yield rxn.param(
                    dict(chain(variables.items(), zip(rsys.substances.keys(), conc))),
                    reaction=rxn,
                )
            else:
                raise ValueError("Not mass-action rate in reaction %d" % idx_r)
        else:
            rate = 1
            for substance_key, coeff in rxn.reac.items():
                s_idx = rsys.as_substance_index(substance_key)
                rate *= conc[s_idx] ** coeff
            yield rate * rxn.param


def dCdt_list(rsys, rates):
    """Returns a list of the time derivatives of the concentrations

    Parameters
    ----------
    rsys: ReactionSystem instance
    rates: array_like
        rates (to be weighted by stoichiometries) of the reactions
        in ``rsys``

    Examples
    --------
    >>> from chempy import ReactionSystem, Reaction
    >>> line, keys = 'H2O -> H+ + OH- ; 1e-4', 'H2O H+ OH-'
    >>> rsys = ReactionSystem([Reaction.from_string(line, keys)], keys)
    >>> dCdt_list(rsys, [0.0054])
    [-0.0054, 0.0054, 0.0054]

    """
    f = [0] * rsys.ns
    net_stoichs = rsys.net_stoichs()
    for idx_s in range(rsys.ns):
        for idx_r in range(rsys.nr):
            f[idx_s] += net_stoichs[idx_r, idx_s] * rates[idx_r]
    return f


def get_odesys(
    rsys,
    include_params=True,
    substitutions=None,
    SymbolicSys=None,
    unit_registry=None,
    output_conc_unit=None,
    output_time_unit=None,
    cstr=False,
    constants=None,
    **kwargs
):
    """Creates a :class:`pyneqsys.SymbolicSys` from a :class:`ReactionSystem`

    The parameters passed to RateExpr will contain the key ``'time'`` corresponding to the
    independent variable of the IVP.

    Parameters
    ----------
    rsys : ReactionSystem
        Each reaction of ``rsys`` will have their :meth:`Reaction.rate_expr()` invoked.
        Note that if :attr:`Reaction.param` is not a :class:`RateExpr` (or convertible to
        one through :meth:`as_RateExpr`) it will be used to construct a :class:`MassAction`
        instance.
    include_params : bool (default: True)
        Whether rate constants should be included into the rate expressions or
        left as free parameters in the :class:`pyneqsys.SymbolicSys` instance.
    substitutions : dict, optional
        Variable substitutions used by rate expressions (in respective Reaction.param).
        values are allowed to be values of instances of :class:`Expr`.
    SymbolicSys : class (optional)
        Default : :class:`pyneqsys.SymbolicSys`.
    unit_registry: dict (optional)
        See :func:`chempy.units.get_derived_units`.
    output_conc_unit : unit (Optional)
    output_time_unit : unit (Optional)
    cstr : bool
        Generate expressions for continuously stirred tank reactor.
    constants : module
        e.g. ``chempy.units.default_constants``, parameter keys not found in
        substitutions will be looked for as an attribute of ``constants`` when provided.
    \\*\\*kwargs :
        Keyword arguments passed on to `SymbolicSys`.

    Returns
    -------
    pyodesys.symbolic.SymbolicSys
    extra : dict, with keys:
        - param_keys : list of str instances
        - unique : OrderedDict mapping str to value (possibly None)
        - p_units : list of units
        - max_euler_step_cb : callable or None
        - linear_dependencies : None or factory of solver callback
        - rate_exprs_cb : callable
        - cstr_fr_fc : None or (feed-ratio-key, subtance-key-to-feed-conc-key-map)

    Examples
    --------
    >>> from chempy import Equilibrium, ReactionSystem
    >>> eq = Equilibrium({'Fe+3', 'SCN-'}, {'FeSCN+2'}, 10**2)
    >>> substances = 'Fe+3 SCN- FeSCN+2'.split()
    >>> rsys = ReactionSystem(eq.as_reactions(kf=3.0), substances)
    >>> odesys, extra = get_odesys(rsys)
    >>> init_conc = {'Fe+3': 1.0, 'SCN-': .3, 'FeSCN+2': 0}
    >>> tout, Cout, info = odesys.integrate(5, init_conc)
    >>> Cout[-1, :].round(4)
    array([0.7042, 0.0042, 0.2958])

    """
    if SymbolicSys is None:
        from pyodesys.symbolic import SymbolicSys

    r_exprs = [rxn.rate_expr() for rxn in rsys.rxns]
    _ori_pk = set.union(*(ratex.all_parameter_keys() for ratex in r_exprs))
    _ori_uk = set.union(*(ratex.all_unique_keys() for ratex in r_exprs))
    _subst_pk = set()
    _active_subst = OrderedDict()
    _passive_subst = OrderedDict()
    substitutions = substitutions or {}

    unique = OrderedDict()
    unique_units = {}

    cstr_fr_fc = (
        ("feedratio", OrderedDict([(sk, "fc_" + sk) for sk in rsys.substances]))
        if cstr is True
        else cstr
    )

    if cstr_fr_fc:
        _ori_pk.add(cstr_fr_fc[0])
        for k in cstr_fr_fc[1].values():
            _ori_pk.add(k)

    def _reg_unique_unit(k, arg_dim, idx):
        if unit_registry is None:
            return
        unique_units[k] = reduce(
            mul, [1] + [unit_registry[dim] ** v for dim, v in arg_dim[idx].items()]
        )

    def _get_arg_dim(expr, rxn):
        if unit_registry is None:
            return None
        else:
            return expr.args_dimensionality(reaction=rxn)

    def _reg_unique(expr, rxn=None):
        if not isinstance(expr, Expr):
            raise NotImplementedError("Currently only Expr sub classes are supported.")

        if isinstance(expr, MassAction):
            if expr.args is None:
                (uk,) = expr.unique_keys
                if uk not in substitutions:
                    unique[uk] = None
                    _reg_unique_unit(uk, _get_arg_dim(expr, rxn), 0)
                    return
            else:
                (arg,) = expr.args
                if isinstance(arg, Symbol):
                    (uk,) = arg.unique_keys
                    if uk not in substitutions:
                        unique[uk] = None
                        _reg_unique_unit(uk, _get_arg_dim(expr, rxn), 0)
                        return

        if expr.args is None:
            for idx, k in enumerate(expr.unique_keys):
                if k not in substitutions:
                    unique[k] = None
                    _reg_unique_unit(k, _get_arg_dim(expr, rxn), idx)
        else:
            for idx, arg in enumerate(expr.args):
                if isinstance(arg, Expr):
                    _reg_unique(arg, rxn=rxn)
                elif expr.unique_keys is not None and idx < len(expr.unique_keys):
                    uk = expr.unique_keys[idx]
                    if uk not in substitutions:
                        unique[uk] = arg
                        _reg_unique_unit(uk, _get_arg_dim(expr, rxn), idx)

    for sk, sv in substitutions.items():
        if sk not in _ori_pk and sk not in _ori_uk:
            raise ValueError(
                "Substitution: '%s' does not appear in any rate expressions." % sk
            )
        if isinstance(sv, Expr):
            _subst_pk.update(sv.parameter_keys)
            _active_subst[sk] = sv
            if not include_params:
                _reg_unique(sv)
        else:
            # if unit_registry is None:
            if unit_registry is not None:
                sv = unitless_in_registry(sv, unit_registry)
            _passive_subst[sk] = sv

    all_pk = []
    for pk in filter(
        lambda x: x not in substitutions and x != "time", _ori_pk.union(_subst_pk)
    ):
        if hasattr(constants, pk):
            const = getattr(constants, pk)
            if unit_registry is None:
                const = magnitude(const)
            else:
                const = unitless_in_registry(const, unit_registry)

            _passive_subst[pk] = const
        else:
            all_pk.append(pk)

    if not include_params:
        for rxn, ratex in zip(rsys.rxns, r_exprs):
            _reg_unique(ratex, rxn)

    all_pk_with_unique = list(
        chain(all_pk, filter(lambda k: k not in all_pk, unique.keys()))
    )
    if include_params:
        param_names_for_odesys = all_pk
    else:
        param_names_for_odesys = all_pk_with_unique

    if unit_registry is None:
        p_units = None
    else:
        # We need to make rsys_params unitless and create
        # a pre- & post-processor for SymbolicSys
        pk_units = [_get_derived_unit(unit_registry, k) for k in all_pk]
        p_units = (
            pk_units
            if include_params
            else (pk_units + [unique_units[k] for k in unique])
        )
        new_r_exprs = []
        for ratex in r_exprs:
            _pu, _new_ratex = ratex.dedimensionalisation(unit_registry)
            new_r_exprs.append(_new_ratex)
        r_exprs = new_r_exprs

        time_unit = get_derived_unit(unit_registry, "time")
        conc_unit = get_derived_unit(unit_registry, "concentration")

        def post_processor(x, y, p):
            time = x * time_unit
            if output_time_unit is not None:
                time = rescale(time, output_time_unit)
            conc = y * conc_unit
            if output_conc_unit is not None:
                conc = rescale(conc, output_conc_unit)
            return (
                time,
                conc,
                np.array(
                    [elem * p_unit for elem, p_unit in zip(p.T, p_units)], dtype=object
                ).T,
            )

        kwargs["to_arrays_callbacks"] = (
            lambda x: to_unitless(x, time_unit),
            lambda y: to_unitless(y, conc_unit),
            lambda p: np.array(
                [
                    to_unitless(px, p_unit)
                    for px, p_unit in zip(p.T if hasattr(p, "T") else p, p_units)
                ]
            ).T,
        )
        kwargs["post_processors"] = kwargs.get("post_processors", []) + [post_processor]

    def dydt(t, y, p, backend=math):
        variables = dict(chain(y.items(), p.items()))
        if "time" in variables:
            raise ValueError("Key 'time' is reserved.")
        variables["time"] = t
        for k, act in _active_subst.items():
            if unit_registry is not None and act.args:
                _, act = act.dedimensionalisation(unit_registry)
            variables[k] = act(variables, backend=backend)
        variables.update(_passive_subst)
        return rsys.rates(
            variables, backend=backend, ratexs=r_exprs, cstr_fr_fc=cstr_fr_fc
        )

    def reaction_rates(t, y, p, backend=math):
        variables = dict(chain(y.items(), p.items()))
        if "time" in variables:
            raise ValueError("Key 'time' is reserved.")
        variables["time"] = t
        for k, act in _active_subst.items():
            if unit_registry is not None and act.args:
                _, act = act.dedimensionalisation(unit_registry)
            variables[k] = act(variables, backend=backend)
        variables.update(_passive_subst)
        return [
            ratex(variables, backend=backend, reaction=rxn)
            for rxn, ratex in zip(rsys.rxns, r_exprs)
        ]

    names = [s.name for s in rsys.substances.values()]
    latex_names = [
        None if s.latex_name is None else ("\\mathrm{" + s.latex_name + "}")
        for s in rsys.substances.values()
    ]

    compo_vecs, compo_names = rsys.composition_balance_vectors()

    odesys = SymbolicSys.from_callback(
        dydt,
        dep_by_name=True,
        par_by_name=True,
        names=names,
        latex_names=latex_names,
        param_names=param_names_for_odesys,
        linear_invariants=None if len(compo_vecs) == 0 else compo_vecs,
        linear_invariant_names=None
        if len(compo_names) == 0
        else list(map(str, compo_names)),
        **kwargs
    )

    symbolic_ratexs = reaction_rates(
        odesys.indep,
        dict(zip(odesys.names, odesys.dep)),
        dict(zip(odesys.param_names, odesys.params)),
        backend=odesys.be,
    )
    rate_exprs_cb = odesys._callback_factory(symbolic_ratexs)

    if rsys.check_balance(strict=True):
        # Composition available, we can provide callback for calculating
        # maximum allowed Euler forward step at start of integration.
        def max_euler_step_cb(x, y, p=()):
            _x, _y, _p = odesys.pre_process(*odesys.to_arrays(x, y, p))
            upper_bounds = rsys.upper_conc_bounds(_y)
            fvec = odesys.f_cb(_x[0], _y, _p)
            h = []
            for idx, fcomp in enumerate(fvec):
                if fcomp == 0:
                    h.append(float("inf"))
                elif fcomp > 0:
                    h.append((upper_bounds[idx] - _y[idx]) / fcomp)
                else:  # fcomp < 0
                    h.append(-_y[idx] / fcomp)
            min_h = min(h)
            return min(min_h, 1)

        def linear_dependencies(preferred=None):
            if preferred is not None:
                if len(preferred) == 0:
                    raise ValueError("No preferred substance keys provided")
                if len(preferred) >= len(rsys.substances):
                    raise ValueError(
                        "Cannot remove all concentrations from linear dependencies"
                    )
                for k in preferred:
                    if k not in rsys.substances:
                        raise ValueError("Unknown substance key: %s" % k)

            def analytic_solver(x0, y0, p0, be):
                if preferred is None:
                    _preferred = None
                else:
                    _preferred = list(preferred)
                A = be.Matrix(compo_vecs)
                rA, pivots = A.rref()

                analytic_exprs = OrderedDict()
                for ri, ci1st in enumerate(pivots):
                    for idx in range(ci1st, odesys.ny):
                        key = odesys.names[idx]
                        if rA[ri, idx] == 0:
                            continue
                        if _preferred is None or key in _preferred:
                            terms = [
                                rA[ri, di] * (odesys.dep[di] - y0[odesys.dep[di]])
                                for di in range(ci1st, odesys.ny)
                                if di != idx
                            ]
                            analytic_exprs[odesys[key]] = (
                                y0[odesys.dep[idx]] - sum(terms) / rA[ri, idx]
                            )
                            if _preferred is not None:
                                _preferred.remove(key)
                            break
                for k in reversed(list(analytic_exprs.keys())):
                    analytic_exprs[k] = analytic_exprs[k].subs(analytic_exprs)
                if _preferred is not None and len(_preferred) > 0:
                    raise ValueError(
                        "Failed to obtain analytic expression for: %s"
                        % ", ".join(_preferred)
                    )
                return analytic_exprs

            return analytic_solver

    else:
        max_euler_step_cb = None
        linear_dependencies = None

    return odesys, {
        "param_keys": all_pk,
        "unique": unique,
        "p_units": p_units,
        "max_euler_step_cb": max_euler_step_cb,
        "linear_dependencies": linear_dependencies,
        "rate_exprs_cb": rate_exprs_cb,
        "cstr_fr_fc": cstr_fr_fc,
        "unit_registry": unit_registry,
    }


@deprecated(
    last_supported_version="0.5.3",
    will_be_missing_in="0.8.0",
    use_instead="pyodesys.chained_parameter_variation",
)
def chained_parameter_variation(
    odesys, durations, init_conc, varied_params, default_params, integrate_kwargs=None
):
    """Integrate an ODE-system for a serie of durations with some parameters changed in-between

    Parameters
    ----------
    odesys : :class:`pyodesys.ODESys` instance
    durations : iterable of floats
    init_conc : dict or array_like
    varied_params : dict mapping parameter name to array_like
        Each array_like need to be of same length as durations.
    default_params : dict or array_like
        Default values for the parameters of the ODE system.
    integrate_kwargs : dict
        Keyword arguments passed on to :meth:`pyodesys.ODESys.integrate`.

    """
    for k, v in varied_params.items():
        if len(v) != len(durations):
            raise ValueError("Mismathced lengths of durations and varied_params")
    integrate_kwargs = integrate_kwargs or {}
    touts = []
    couts = []
    infos = {}
    c0 = init_conc.copy()
    for idx, duration in enumerate(durations):
        params = default_params.copy()
        for k, v in varied_params.items():
            params[k] = v[idx]
        tout, cout, info = odesys.integrate(duration, c0, params, **integrate_kwargs)
        c0 = cout[-1, :]
        idx0 = 0 if idx == 0 else 1
        t_global = 0 if idx == 0 else touts[-1][-1]
        touts.append(tout[idx0:] + t_global)
        couts.append(cout[idx0:, ...])
        for k, v in info.items():
            if k.startswith("internal"):
                continue
            if k in infos:
                infos[k] += (v,)
            else:
                infos[k] = (v,)
    return np.concatenate(touts), np.concatenate(couts), infos


def _create_odesys(
    rsys,
    substance_symbols=None,
    parameter_symbols=None,
    pretty_replace=lambda x: x,
    backend=None,
    SymbolicSys=None,
    time_symbol=None,
    unit_registry=None,
    rates_kw=None,
    parameter_expressions=None,
    symbolic_kw=None,
):
    """This will be a simpler version of get_odesys without the unit handling code.
    The motivation is to reduce complexity (the code of get_odesys is long with multiple closures).

    This will also rely on SymPy explicitly and the user will be expected to deal with SymPy
    expressions.

    Only when this function has the same capabilities as get_odesys will it become and public API
    (along with a deprecation of get_odesys).

    Parameters
    ----------
    rsys : ReactionSystem instance
    substance_symbols : OrderedDict
       If ``None``: ``rsys.substances`` will be used.
    parameter_symbols : OrderedDict
    backend : str or module
        Symbolic backend (e.g. sympy). The package ``sym`` is used as a wrapper.
    SymbolicSys: class
        See ``pyodesys`` for API.
    time_symbol : Symbol
    unit_registry : object
        e.g. ``chempy.units.SI_base_registry``
    rates_kw : dict
        Keyword arguments passed to the ``rates`` method of rsys.
    parameter_expressions : dict
        Optional overrides.
    symbolic_kw : dict
        Keyword arguments passed on to SymbolicSys.

    Returns
    -------
    SymbolicSys (subclass of ``pyodesys.ODESys``)
    dict :
        - ``'symbols'``: dict mapping str to symbol.
        - ``'validate'``: callable acppeting a dictionary mapping str to quantities
    """
    if backend is None:
        from sym import Backend

        backend = Backend(backend)
    if SymbolicSys is None:
        from pyodesys.symbolic import SymbolicSys

    if substance_symbols is None:
        substance_symbols = OrderedDict(
            [(key, backend.Symbol(key)) for key in rsys.substances]
        )
    if isinstance(substance_symbols, OrderedDict):
        if list(substance_symbols) != list(rsys.substances):
            raise ValueError(
                "substance_symbols needs to have same (oredered) keys as rsys.substances"
            )

    if parameter_symbols is None:
        keys = []
        for rxnpar in map(attrgetter("param"), rsys.rxns):
            if isinstance(rxnpar, str):
                if rxnpar in (parameter_expressions or {}):
                    for pk in parameter_expressions[rxnpar].all_parameter_keys():
                        keys.append(pk)
                else:
                    keys.append(rxnpar)
            elif isinstance(rxnpar, Expr):
                keys.extend(rxnpar.all_unique_keys())
                for pk in rxnpar.all_parameter_keys():
                    if pk not in keys:
                        keys.append(pk)
            else:
                raise NotImplementedError("Unknown")
        if rates_kw and "cstr_fr_fc" in rates_kw:
            flowrate_volume, feed_conc = rates_kw["cstr_fr_fc"]
            keys.append(flowrate_volume)
            keys.extend(feed_conc.values())
            assert all(sk in rsys.substances for sk in feed_conc)
        if len(keys) != len(set(keys)):
            raise ValueError("Duplicates in keys")
        parameter_symbols = OrderedDict([(key, backend.Symbol(key)) for key in keys])

    if not isinstance(parameter_symbols, OrderedDict):
        raise ValueError("parameter_symbols needs to be an OrderedDict")

    symbols = OrderedDict(chain(substance_symbols.items(), parameter_symbols.items()))
    symbols["time"] = time_symbol or backend.Symbol("t")
    if any(symbols["time"] == v for k, v in symbols.items() if k != "time"):
        raise ValueError("time_symbol already in use (name clash?)")
    varbls = dict(symbols, **parameter_symbols)
    varbls.update(parameter_expressions or {})
    rates = rsys.rates(varbls, **(rates_kw or {}))
    compo_vecs, compo_names = rsys.composition_balance_vectors()

    odesys = SymbolicSys(
        zip(
            [substance_symbols[key] for key in rsys.substances],
            [rates[key] for key in rsys.substances],
        ),
        symbols["time"],
        parameter_symbols.values(),
        names=list(rsys.substances.keys()),
        latex_names=[s.latex_name for s in rsys.substances.values()],
        param_names=parameter_symbols.keys(),
        latex_param_names=[pretty_replace(n) for n in parameter_symbols.keys()],
        linear_invariants=compo_vecs,
        linear_invariant_names=list(map(str, compo_names)),
        backend=backend,
        dep_by_name=True,
        par_by_name=True,
        **(symbolic_kw or {})
    )

    validate = partial(
        _validate, rsys=rsys, symbols=symbols, odesys=odesys, backend=backend
    )
    return odesys, {
        "symbols": symbols,
        "validate": validate,
        "unit_aware_solve": _mk_unit_aware_solve(
            odesys, unit_registry, validate=validate
        )
        if unit_registry
        else None,
    }


def _mk_dedim(unit_registry):
    unit_time = get_derived_unit(unit_registry, "time")
    unit_conc = get_derived_unit(unit_registry, "concentration")

    def dedim_tcp(
        t, c, p, param_unit=lambda k, v: default_unit_in_registry(v, unit_registry)
    ):
        _t = to_unitless(t, unit_time)
        _c = to_unitless(c, unit_conc)
        _p, pu = {}, {}
        for k, v in p.items():
            pu[k] = param_unit(k, v)
            _p[k] = to_unitless(v, pu[k])
        return (_t, _c, _p), dict(
            unit_time=unit_time, unit_conc=unit_conc, param_units=pu
        )

    return locals()


def _mk_unit_aware_solve(odesys, unit_registry, validate):

    dedim_ctx = _mk_dedim(unit_registry)

    def solve(t, c, p, **kwargs):
        for name in odesys.names:
            c[name]  # to e.g. populate defaultdict
        validate(dict(c, **p))
        tcp, dedim_extra = dedim_ctx["dedim_tcp"](t, c, p)
        result = odesys.integrate(*tcp, **kwargs)
        result.xout = result.xout * dedim_extra["unit_time"]
        result.yout = (
            result.yout * dedim_extra["unit_conc"]
        )  # assumes only concentrations in y
        return result, dedim_extra

    return solve


def _exact(v):
    if hasattr(v, "_uncertainty"):
        return v.magnitude * v.units
    else:
        return v


def _validate(
    conditions,
    rsys,
    symbols,
    odesys,
    backend=None,
    transform=None,
    ignore=("time",),
    check_conditions_no_extra=False,
):
    """For use with create_odesys

    Parameters
    ----------
    conditions : OrderedDict
        Parameters, values with units from ``chempy.units``.
    rsys : ReactionSystem
    symbols : dict
        Mapping variable name to symbols.
    backend : module
        Module for symbolic mathematics. (defaults to SymPy)
    transform : callable for rewriting expressions
    check_conditions_no_extra : bool
        When True, conditions may not contain keys not referenced in any expression.

    Raises
    ------
    ``KeyError`` if a key in conditions is not in odesys.names or odesys.param_names

    """
    if backend is None:
        from sym import Backend

        backend = Backend(backend)

    if transform is None:
        if backend.__name__ != "sympy":
            warnings.warn("Backend != SymPy, provide your own transform function.")

        def transform(arg):
            expr = backend.logcombine(arg, force=True)
            v, w = map(backend.Wild, "v w".split())
            return expr.replace(backend.log(w ** v), v * backend.log(w))

    rates = {}
    seen = set()

    for k, v in rsys.rates(symbols).items():
        expr = transform(v)
        if expr == 0:
            rate = 0 * u.molar / u.second
        else:
            rate = None
            for term in (
                expr.args if hasattr(expr, "is_Add") and expr.is_Add else (expr,)
            ):
                args = sorted(expr.free_symbols, key=lambda e: e.name)
                values = [conditions[s.name] for s in args]
                result = backend.lambdify(args, term)(*map(_exact, values))
                to_unitless(
                    result, u.molar / u.second
                )  # raises an exception upon unit error
                if rate is None:
                    rate = result
                else:
                    rate += result
        rates[k] = rate
        seen |= set([s.name for s in expr.free_symbols])
    if check_conditions_no_extra:
        for k in conditions:
            if (
                k not in odesys.param_names
                and k not in odesys.names
                and k not in ignore
            ):
                raise KeyError("Unknown param: %s" % k)
    return {"not_seen": (set(rsys.substances) | set(conditions)) - seen, "rates": rates}
