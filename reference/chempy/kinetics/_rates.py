# -*- coding: utf-8 -*-
"""
Non-public API (classes in this module may change without notice).

The purpose here is to define conventions, e.g. lower-case string
 'temperature' is used, opposed to e.g. 'T', 'Temperature', etc.
"""

from ..util._expr import create_Poly, create_Piecewise

TPoly = create_Poly("temperature")
RTPoly = create_Poly("temperature", reciprocal=True)
Log10TPoly = create_Poly("log10_temperature")
ShiftedTPoly = create_Poly("temperature", shift="Tref", name="ShiftedTPoly")
ShiftedLog10TPoly = create_Poly("log10_temperature", shift="log10_Tref")
ShiftedRTPoly = create_Poly("temperature", shift="Tref", reciprocal=True)
TPiecewise = create_Piecewise("temperature", nan_fallback=True)
