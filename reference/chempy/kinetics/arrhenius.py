# -*- coding: utf-8 -*-
"""
Contains functions for the `Arrhenius equation
<https://en.wikipedia.org/wiki/Arrhenius_equation>`_
(:func:`arrhenius_equation`) and a convenience fitting routine
(:func:`fit_arrhenius_equation`).
"""

from .._util import get_backend
from ..util.regression import least_squares
from ..util.pyutil import defaultnamedtuple
from ..units import default_constants, default_units, format_string, patched_numpy

try:
    import numpy as np
except ImportError:
    np = None


def _fit_linearized(backtransfm, lin_x, lin_y, lin_yerr):
    if len(lin_x) != len(lin_y):
        raise ValueError("k and T needs to be of equal length.")
    if lin_yerr is not None:
        if len(lin_yerr) != len(lin_y):
            raise ValueError("kerr and T needs to be of equal length.")
    lin_p, lin_vcv, lin_r2 = least_squares(lin_x, lin_y, lin_yerr)
    return [cb(lin_p) for cb in backtransfm]


def _fit(T, k, kerr, func, lin_x, lin_y, backtransfm, linearized=False):
    _lin_y = lin_y(T, k)
    if kerr is None:
        lin_yerr = 1
    else:
        lin_yerr = (
            abs(lin_y(k - kerr, T) - _lin_y) + abs(lin_y(k + kerr, T) - _lin_y)
        ) / 2

    lopt = _fit_linearized(backtransfm, lin_x(T, k), _lin_y, lin_yerr)
    if linearized:
        return lopt
    from scipy.optimize import curve_fit

    popt, pcov = curve_fit(func, T, k, lopt, kerr)
    return popt, pcov


def _get_R(constants=None, units=None):
    if constants is None:
        R = 8.314472
        if units is not None:
            J = units.joule
            K = units.Kelvin
            mol = units.mol
            R *= J / mol / K
    else:
        R = constants.molar_gas_constant.simplified
    return R


def arrhenius_equation(A, Ea, T, constants=None, units=None, backend=None):
    """
    Returns the rate coefficient according to the Arrhenius equation

    Parameters
    ----------
    A: float with unit
        frequency factor
    Ea: float with unit
        activation energy
    T: float with unit
        temperature
    constants: object (optional, default: None)
        if None:
            T assumed to be in Kelvin, Ea in J/(K mol)
        else:
            attributes accessed: molar_gas_constant
            Tip: pass quantities.constants
    units: object (optional, default: None)
        attributes accessed: Joule, Kelvin and mol
    backend: module (optional)
        module with "exp", default: numpy, math

    """
    be = get_backend(backend)
    R = _get_R(constants, units)
    try:
        RT = (R * T).rescale(Ea.dimensionality)
    except AttributeError:
        RT = R * T
    return A * be.exp(-Ea / RT)


def fit_arrhenius_equation(
    T, k, kerr=None, linearized=False, constants=None, units=None
):
    """Curve fitting of the Arrhenius equation to data points

    Parameters
    ----------
    T : float
    k : array_like
    kerr : array_like (optional)
    linearized : bool

    """
    return _fit(
        T,
        k,
        kerr,
        arrhenius_equation,
        lambda T, k: 1 / T,
        lambda T, k: np.log(k),
        [lambda p: np.exp(p[0]), lambda p: -p[1] * _get_R(constants, units)],
        linearized=linearized,
    )


def _fit_arrhenius_equation(T, k, kerr=None, linearized=False):
    """Curve fitting of the Arrhenius equation to data points

    Parameters
    ----------
    k : array_like
    T : float
    kerr : array_like (optional)
    linearized : bool

    """
    if len(k) != len(T):
        raise ValueError("k and T needs to be of equal length.")
    from math import exp
    import numpy as np

    p = np.polyfit(1 / T, np.log(k), 1)
    R = _get_R(constants=None, units=None)
    Ea = -R * p[0]
    A = exp(p[1])
    if linearized:
        return A, Ea
    from scipy.optimize import curve_fit

    if kerr is None:
        weights = None
    else:
        weights = 1 / kerr ** 2
    popt, pcov = curve_fit(arrhenius_equation, T, k, [A, Ea], weights)
    return popt, pcov


class ArrheniusParam(defaultnamedtuple("ArrheniusParam", "A Ea ref", [None])):
    """Kinetic data in the form of an Arrhenius parameterisation

    Parameters
    ----------
    Ea: float
        activation energy
    A: float
        preexponential prefactor (Arrhenius type eq.)
    ref: object (default: None)
        arbitrary reference (e.g. string representing citation key)

    Examples
    --------
    >>> k = ArrheniusParam(1e13, 40e3)
    >>> '%.5g' % k(298.15)
    '9.8245e+05'

    """

    def html(self, fmt):
        return "%s exp((%s)/(RT))" % (fmt(self.A), fmt(self.Ea))

    def unicode(self, fmt):
        return "%s exp((%s)/(RT))" % (fmt(self.A), fmt(self.Ea))

    @classmethod
    def from_rateconst_at_T(
        cls, Ea, T_k, backend=None, constants=None, units=None, **kwargs
    ):
        """Constructs an instance from a known rate constant at a given temperature.

        Parameters
        ----------
        Ea : float
            Activation energy.
        T_k : tuple of two floats
            Temperature & rate constant.

        """
        # k = A*exp(-Ea/R/T)
        # A = k*exp(Ea/R/T)
        T, k = T_k
        R = _get_R(constants, units)
        if backend is None:
            from chempy.units import patched_numpy as backend
        return cls(k * backend.exp(Ea / R / T), Ea, **kwargs)

    @classmethod
    def from_fit_of_data(cls, T, k, kerr=None, **kwargs):
        args, vcv = fit_arrhenius_equation(T, k, kerr)
        return cls(*args, **kwargs)

    def __call__(self, T, constants=None, units=None, backend=None):
        """Evaluates the arrhenius equation for a specified state

        Parameters
        ----------
        T: float
        constants: module (optional)
        units: module (optional)
        backend: module (default: math)

        See also
        --------
        chempy.arrhenius.arrhenius_equation : the function called here.

        """
        return arrhenius_equation(
            self.A, self.Ea, T, constants=constants, units=units, backend=backend
        )

    def Ea_over_R(self, constants, units, backend=None):
        return self.Ea / _get_R(constants, units)

    def as_RateExpr(self, unique_keys=None, constants=None, units=None, backend=None):
        from .rates import Arrhenius, MassAction

        args = [self.A, self.Ea_over_R(constants, units)]
        return MassAction(Arrhenius(args, unique_keys))

    def format(self, precision, tex=False):
        try:
            str_A, str_A_unit = format_string(self.A, precision, tex)
            str_Ea, str_Ea_unit = format_string(self.Ea, precision, tex)
        except Exception:
            str_A, str_A_unit = precision.format(self.A), "-"
            str_Ea, str_Ea_unit = precision.format(self.Ea), "-"
        return (str_A, str_A_unit), (str_Ea, str_Ea_unit)

    def equation_as_string(self, precision, tex=False):
        (str_A, str_A_unit), (str_Ea, str_Ea_unit) = self.format(precision, tex)
        if tex:
            return (
                r"{}\exp \left(-\frac{{{}}}{{RT}} \right)".format(
                    str_A, str_Ea + " " + str_Ea_unit
                ),
                str_A_unit,
            )
        else:
            return (
                "{}*exp(-{}/(R*T))".format(str_A, str_Ea + " " + str_Ea_unit),
                str_A_unit,
            )

    def __str__(self):
        return " ".join(self.equation_as_string("%.5g"))


class ArrheniusParamWithUnits(ArrheniusParam):
    @classmethod
    def from_rateconst_at_T(cls, *args, **kwargs):
        if "constants" not in kwargs:
            kwargs["constants"] = default_constants
        if "units" not in kwargs:
            kwargs["units"] = default_units
        if "backend" not in kwargs:
            kwargs["backend"] = patched_numpy
        return super(ArrheniusParamWithUnits, cls).from_rateconst_at_T(*args, **kwargs)

    def __call__(
        self, state, constants=default_constants, units=default_units, backend=None
    ):
        """See :func:`chempy.arrhenius.arrhenius_equation`."""
        return super(ArrheniusParamWithUnits, self).__call__(
            state, constants, units, backend
        )

    def as_RateExpr(
        self, unique_keys=None, constants=default_constants, units=default_units
    ):
        return super(ArrheniusParamWithUnits, self).as_RateExpr(
            unique_keys, constants, units
        )
