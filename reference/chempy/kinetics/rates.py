# -*- coding: utf-8 -*-
"""
This module collects object representing rate expressions. It is based
on the ``chemp.util._expr`` module. The API is somewhat cumbersome since
it tries to be compatible with pure python, SymPy and the underlying
units library of ChemPy (``quantities``). Consider the API to be provisional.
"""


from collections import OrderedDict
from functools import reduce
import math
from operator import add

from ..units import get_derived_unit, default_units, energy, concentration
from ..util._dimensionality import dimension_codes, base_registry
from ..util.pyutil import memoize, deprecated
from ..util._expr import Expr, UnaryWrapper, Symbol


_molar = getattr(default_units, "molar", 1)  # makes module importable.


def _pure_number(arg):
    """Rescales a dimensionless quantity (e.g. kJ/J or K/mK) to a pure number.

    Functions such as ``math.exp`` read the bare magnitude of their argument.
    Plain numbers, arrays and symbolic expressions are returned unchanged.
    """
    try:
        return arg.simplified
    except AttributeError:
        return arg


class RateExpr(Expr):
    """Baseclass for rate expressions, see source code of e.g. MassAction & Radiolytic."""

    @classmethod
    @deprecated(use_instead=Expr.from_callback)
    def subclass_from_callback(cls, cb, cls_attrs=None):
        """Override RateExpr.__call__

        Parameters
        ----------
        cb : callback
            With signature (variables, all_args, backend) -> scalar
            where `variables` is a dict, `all_args` a tuple and `backend` a module.
        cls_attrs : dict, optional
            Attributes to set in subclass, e.g. parameter_keys, nargs

        Examples
        --------
        >>> from chempy import Reaction
        >>> rxn = Reaction({'O2': 1, 'H2': 1}, {'H2O2': 1})  # d[H2O2]/dt = p0*exp(-p1/T)*sqrt([O2])
        >>> def cb(variables, all_args, backend):
        ...     O2, T = variables['O2'], variables['temperature']
        ...     p0, p1 = all_args
        ...     return p0*backend.sqrt(O2)*backend.exp(-p1/T)
        >>> MyRateExpr = RateExpr.subclass_from_callback(cb, dict(parameter_keys=('temperature',),nargs=2))
        >>> k = MyRateExpr([1.3e9, 4317.2])
        >>> print('%.5g' % k({'temperature': 298.15, 'O2': 1.1e-3, 'rxn': rxn}))
        22.186

        """

        class _RateExpr(cls):
            def __call__(self, variables, backend=math, **kwargs):
                return cb(
                    variables,
                    self.all_args(variables, backend=backend),
                    backend=backend,
                    **kwargs
                )

        for k, v in (cls_attrs or {}).items():
            setattr(_RateExpr, k, v)
        return _RateExpr


class RadiolyticBase(RateExpr):
    pass  # for isinstance checks


@memoize(None)
def mk_Radiolytic(*doserate_names):
    """Create a Radiolytic rate expression

    Note that there is no mass-action dependence in the resulting
    class, i.e. the rates does not depend on any concentrations.

    Parameters
    ----------
    \\*doserate_names : str instances
        Default: ('',)


    Examples
    --------
    >>> RadiolyticAlpha = mk_Radiolytic('alpha')
    >>> RadiolyticGamma = mk_Radiolytic('gamma')
    >>> dihydrogen_alpha = RadiolyticAlpha([0.8e-7])
    >>> dihydrogen_gamma = RadiolyticGamma([0.45e-7])
    >>> RadiolyticAB = mk_Radiolytic('alpha', 'beta')

    Notes
    -----
    The instance __call__ will require by default ``'density'`` and ``'doserate'``
    in variables.

    """
    if len(doserate_names) == 0:
        doserate_names = ("",)

    class _Radiolytic(RadiolyticBase):
        argument_names = tuple(
            "radiolytic_yield{0}".format("" if drn == "" else "_" + drn)
            for drn in doserate_names
        )  # [amount/energy]
        parameter_keys = ("density",) + tuple(
            "doserate{0}".format("" if drn == "" else "_" + drn)
            for drn in doserate_names
        )

        def args_dimensionality(self, reaction):
            N = base_registry["amount"]
            E = get_derived_unit(base_registry, "energy")
            return (dict(zip(dimension_codes, N / E)),) * self.nargs

        def g_values(self, *args, **kwargs):
            return OrderedDict(
                zip(self.parameter_keys[1:], self.all_args(*args, **kwargs))
            )

        @deprecated(use_instead="Radiolytic.all_args")
        def g_value(self, variables, backend=math, **kwargs):
            (g_val,) = self.all_args(variables, backend=backend, **kwargs)
            return g_val

        def __call__(self, variables, backend=math, reaction=None, **kwargs):
            return variables["density"] * reduce(
                add,
                [
                    variables[k] * gval
                    for k, gval in zip(
                        self.parameter_keys[1:],
                        self.all_args(variables, backend=backend, **kwargs),
                    )
                ],
            )

    _Radiolytic.__name__ = (
        "Radiolytic"
        if doserate_names == ("",)
        else ("Radiolytic_" + "_".join(doserate_names))
    )
    return _Radiolytic


Radiolytic = mk_Radiolytic()


class MassAction(RateExpr, UnaryWrapper):
    """Rate-expression of mass-action type

    Notes
    -----
    :meth:`__call__` requires a :class:`Reaction` instance to be passed as ``reaction``
    keyword argument.

    Examples
    --------
    >>> ma = MassAction([3.14])
    >>> from chempy import Reaction
    >>> r = Reaction.from_string('3 A -> B', param=ma)
    >>> r.rate({'A': 2}) == {'A': -75.36, 'B': 25.12}
    True

    """

    def _str(self, *args, **kwargs):
        (arg,) = self.args
        if isinstance(arg, Symbol):
            (uk,) = arg.unique_keys
            return "'%s'" % uk
        else:
            return super(MassAction, self)._str(*args, **kwargs)

    def __repr__(self):
        return super(MassAction, self)._str(repr)

    def get_named_keys(self):
        # Symbol uses args[0] to return from variables
        (arg,) = self.args
        if isinstance(arg, Symbol):
            return arg.args
        else:
            return self.unique_keys

    argument_names = ("rate_constant",)

    def args_dimensionality(self, reaction):
        order = reaction.order()
        return ({"time": -1, "amount": 1 - order, "length": 3 * (order - 1)},)

    def active_conc_prod(self, variables, backend=math, reaction=None):
        result = 1
        for k, v in reaction.reac.items():
            result *= variables[k] ** v
        return result

    def rate_coeff(self, variables, backend=math, **kwargs):
        (rat_c,) = self.all_args(variables, backend=backend, **kwargs)
        return rat_c

    def __call__(self, variables, backend=math, reaction=None, **kwargs):
        return self.rate_coeff(
            variables, backend=backend, reaction=reaction
        ) * self.active_conc_prod(
            variables, backend=backend, reaction=reaction, **kwargs
        )

    def string(self, *args, **kwargs):
        if self.args is None and len(self.unique_keys) == 1:
            return self.unique_keys[0]
        else:
            return super(MassAction, self).string(*args, **kwargs)

    @classmethod
    @deprecated(use_instead="MassAction.from_callback")
    def subclass_from_callback(cls, cb, cls_attrs=None):
        """Override MassAction.__call__"""
        _RateExpr = super(MassAction, cls).subclass_from_callback(
            cb, cls_attrs=cls_attrs
        )

        def wrapper(*args, **kwargs):
            obj = _RateExpr(*args, **kwargs)
            return cls(obj)

        return wrapper

    @classmethod
    def from_callback(cls, callback, attr="__call__", **kwargs):
        Wrapper = RateExpr.from_callback(callback, attr=attr, **kwargs)
        return lambda *args, **kwargs: MassAction(Wrapper(*args, **kwargs))


class Arrhenius(Expr):
    """Rate expression for a Arrhenius-type of rate: c0*exp(-c1/T)

    Examples
    --------
    >>> from math import exp
    >>> from chempy import Reaction
    >>> from chempy.units import allclose, default_units as u
    >>> A = 1e11 / u.second
    >>> Ea_over_R = 42e3/8.3145 * u.K**-1
    >>> ratex = MassAction(Arrhenius([A, Ea_over_R]))
    >>> rxn = Reaction({'R'}, {'P'}, ratex)
    >>> dRdt = rxn.rate({'R': 3*u.M, 'temperature': 298.15*u.K})['R']
    >>> allclose(dRdt, -3*1e11*exp(-42e3/8.3145/298.15)*u.M/u.s)
    True

    """

    argument_names = ("A", "Ea_over_R")
    parameter_keys = ("temperature",)

    def args_dimensionality(self, reaction):
        order = reaction.order()
        return (
            {"time": -1, "amount": 1 - order, "length": 3 * (order - 1)},
            {"temperature": 1},
        )

    def __call__(self, variables, backend=math, **kwargs):
        A, Ea_over_R = self.all_args(variables, backend=backend, **kwargs)
        return A * backend.exp(_pure_number(-Ea_over_R / variables["temperature"]))


class Eyring(Expr):
    """Rate expression for Eyring eq: c0*T*exp(-c1/T)

    Note that choice of standard state (c^0) will matter for order > 1.
    """

    argument_names = ("kB_h_times_exp_dS_R", "dH_over_R", "conc0")
    argument_defaults = (1 * _molar,)
    parameter_keys = ("temperature",)

    def args_dimensionality(self, reaction):
        # conc0 ** (1 - order) in __call__ provides the concentration dependence
        return (
            {"time": -1, "temperature": -1},
            {"temperature": 1},
            concentration,
        )

    def __call__(self, variables, backend=math, **kwargs):
        c0, c1, conc0 = self.all_args(variables, backend=backend, **kwargs)
        T = variables["temperature"]
        return (
            c0
            * T
            * backend.exp(_pure_number(-c1 / T))
            * conc0 ** (1 - kwargs["reaction"].order())
        )


class EyringHS(Expr):
    argument_names = ("dH", "dS", "c0")
    argument_defaults = (1 * _molar,)
    parameter_keys = (
        "temperature",
        "molar_gas_constant",
        "Boltzmann_constant",
        "Planck_constant",
    )

    def args_dimensionality(self, **kwargs):
        return (
            energy + {"amount": -1},
            energy + {"amount": -1, "temperature": -1},
            concentration,
        )

    def __call__(self, variables, backend=math, reaction=None, **kwargs):
        dH, dS, c0 = self.all_args(variables, backend=backend, **kwargs)
        T, R, kB, h = [variables[k] for k in self.parameter_keys]
        return (
            kB
            / h
            * T
            * backend.exp(_pure_number(-(dH - T * dS) / (R * T)))
            * c0 ** (1 - reaction.order())
        )


class RampedTemp(Expr):
    """Ramped temperature, pass as substitution to e.g. ``get_odesys``"""

    argument_names = ("T0", "dTdt")
    parameter_keys = ("time",)  # consider e.g. a parameter such as 'init_time'

    def args_dimensionality(self, **kwargs):
        return ({"temperature": 1}, {"temperature": 1, "time": -1})

    def __call__(self, variables, backend=None, **kwargs):
        T0, dTdt = self.all_args(variables, backend=backend, **kwargs)
        return T0 + dTdt * variables["time"]


class SinTemp(Expr):
    argument_names = ("Tbase", "Tamp", "angvel", "phase")
    parameter_keys = ("time",)

    def args_dimensionality(self, **kwargs):
        return ({"temperature": 1}, {"temperature": 1}, {"time": -1}, {})

    def __call__(self, variables, backend=math, **kwargs):
        Tbase, Tamp, angvel, phase = self.all_args(variables, backend=backend, **kwargs)
        return Tbase + Tamp * backend.sin(
            _pure_number(angvel * variables["time"]) + phase
        )
