# -*- coding: utf-8 -*-

try:
    import numpy as np
except ImportError:
    np = None

try:
    import matplotlib.pyplot as plt
except ImportError:
    plt = None

from .. import ReactionSystem, Equilibrium
from ..units import get_derived_unit, to_unitless, default_units as u


def _dominant_reaction_effects(substance_key, rsys, rates, linthreshy, eqk1, eqk2, eqs):
    tot = np.zeros(rates.shape[0])
    reaction_effects = rsys.per_reaction_effect_on_substance(substance_key)
    data = []
    for ri, n in reaction_effects.items():
        tot += n * rates[..., ri]
        if ri in eqk1:
            otheri = eqk2[eqk1.index(ri)]
            y = n * rates[..., ri] + reaction_effects[otheri] * rates[..., otheri]
            rxn = eqs[eqk1.index(ri)]
        elif ri in eqk2:
            continue
        else:
            y = n * rates[..., ri]
            rxn = rsys.rxns[ri]
        if np.all(np.abs(y) < linthreshy):
            continue
        data.append((y, rxn))
    return data, tot


def _combine_rxns_to_eq(rsys):
    eqk1, eqk2 = zip(*rsys.identify_equilibria())
    eqs = [
        Equilibrium(
            rsys.rxns[i1].reac,
            rsys.rxns[i1].prod,
            (rsys.rxns[i1].param, rsys.rxns[i2].param),
            inact_reac=rsys.rxns[i1].inact_reac,
            inact_prod=rsys.rxns[i1].inact_prod,
        )
        for i1, i2 in zip(eqk1, eqk2)
    ]
    return eqk1, eqk2, eqs


def plot_reaction_contributions(
    xyp,
    rsys,
    rate_exprs_cb,
    substance_keys=None,
    varied=None,
    axes=None,
    total=False,
    linthreshy=1e-9,
    relative=False,
    xscale="log",
    yscale="symlog",
    xlabel="Time",
    ylabel=None,
    combine_equilibria=False,
    selection=slice(None),
    unit_registry=None,
):
    """Plots per reaction contributions to concentration evolution of a substance.

    Parameters
    ----------
    xyp : ``pyodesys.results.Result`` instance or length 3 tuple or xout,yout,params
    result : pyodesys.results.Result
    substance_key : str

    """
    from pyodesys.results import Result

    if isinstance(xyp, Result):
        xyp = xyp.odesys.to_arrays(xyp.xout, xyp.yout, xyp.params, reshape=False)
    if varied is None:
        varied = xyp[0]
    if xyp[1].shape[-2] != varied.size:
        raise ValueError("Size mismatch between varied and yout")
    if substance_keys is None:
        substance_keys = rsys.substances.keys()
    if axes is None:
        _fig, axes = plt.subplots(len(substance_keys))
    rates = rate_exprs_cb(*xyp)
    if unit_registry is not None:
        time_unit = get_derived_unit(unit_registry, "time")
        conc_unit = get_derived_unit(unit_registry, "concentration")
        rates = to_unitless(rates * conc_unit / time_unit, u.molar / u.second)

    eqk1, eqk2, eqs = _combine_rxns_to_eq(rsys) if combine_equilibria else ([], [], [])

    for sk, ax in zip(substance_keys, axes):
        data, tot = _dominant_reaction_effects(
            sk, rsys, rates, linthreshy, eqk1, eqk2, eqs
        )
        factor = 1 / xyp[1][:, rsys.as_substance_index(sk)] if relative else 1
        if total:
            ax.plot(varied, factor * tot, c="k", label="Total", linewidth=2, ls=":")
        for y, rxn in sorted(data, key=lambda args: args[0][-1], reverse=True):
            ax.plot(
                varied, factor * y, label=r"$\mathrm{%s}$" % rxn.latex(rsys.substances)
            )

        if rsys.substances[sk].latex_name is None:
            ttl = rsys.substances[sk].name
            ttl_template = "%s"
        else:
            ttl = rsys.substances[sk].latex_name
            ttl_template = r"\mathrm{$%s$}"

        if yscale == "symlog":
            ax.axhline(linthreshy, linestyle="--", color="k", linewidth=0.5)
            ax.axhline(-linthreshy, linestyle="--", color="k", linewidth=0.5)
            ax.set_yscale(yscale, linthreshy=linthreshy)
        else:
            ax.set_yscale(yscale)

        if ylabel is None:
            ax.set_ylabel(r"$\frac{d}{dt}\left[%s\right]\ /\ M\cdot s^{-1}$" % ttl)
        else:
            ax.set_ylabel(ylabel)
            ax.set_title(ttl_template % ttl)

        ax.set_xlabel(xlabel)
        ax.set_xscale(xscale)
        ax.legend(loc="best")


def dominant_reactions_graph(
    concs,
    rate_exprs_cb,
    rsys,
    substance_key,
    linthreshy=1e-9,
    fname="dominant_reactions_graph.png",
    relative=False,
    combine_equilibria=False,
    **kwargs
):
    from ..util.graph import rsys2graph

    rates = rate_exprs_cb(0, concs)
    eqk1, eqk2, eqs = _combine_rxns_to_eq(rsys) if combine_equilibria else ([], [], [])
    rrate, rxns = zip(
        *_dominant_reaction_effects(
            substance_key, rsys, rates, linthreshy, eqk1, eqk2, eqs
        )[0]
    )
    rsys = ReactionSystem(rxns, rsys.substances, rsys.name)
    lg_rrate = np.log10(np.abs(rrate))
    rsys2graph(rsys, fname=fname, penwidths=1 + lg_rrate - np.min(lg_rrate), **kwargs)
