"""
This module collects a few analytic solutions of initial value problems (IVPs) in
chemical kinetics (i.e. integrated rate expressions in closed form).
The expressions are useful in e.g. regression or for comparison with numerical
solution of the corresponding ODE system.
"""

from .._util import get_backend


def dimerization_irrev(t, kf, initial_C, P0=1, t0=0):
    return 1 / (1 / initial_C + 2 * kf * (t - t0))


def pseudo_irrev(t, kf, prod, major, minor, backend=None):
    """Analytic product transient of a irreversible pseudo first order reaction.

    Product concentration vs time from pseudo-first order irreversible kinetics.

    Parameters
    ----------
    t : float, Symbol or array_like
        Time.
    kf : number or Symbol
        Forward (bimolecular) rate constant.
    kb : number or Symbol
        Backward (unimolecular) rate constant.
    prod : number or Symbol
        Initial concentration of the complex.
    major : number or Symbol
        Initial concentration of the more abundant reactant.
    minor : number or Symbol
        Initial concentration of the less abundant reactant.
    backend : module or str
        Default is 'numpy', can also be e.g. ``sympy``.

    """
    be = get_backend(backend)
    return prod + minor * (1 - be.exp(-major * kf * t))


pseudo_irrev.name = "Pseudo first order irreversible"


def pseudo_rev(t, kf, kb, prod, major, minor, backend=None):
    """Analytic product transient of a reversible pseudo first order reaction.

    Product concentration vs time from pseudo-first order reversible kinetics.

    Parameters
    ----------
    t : float, Symbol or array_like
        Time.
    kf : number or Symbol
        Forward (bimolecular) rate constant.
    kb : number or Symbol
        Backward (unimolecular) rate constant.
    prod : number or Symbol
        Initial concentration of the complex.
    major : number or Symbol
        Initial concentration of the more abundant reactant.
    minor : number or Symbol
        Initial concentration of the less abundant reactant.
    backend : module or str
        Default is 'numpy', can also be e.g. ``sympy``.

    """
    be = get_backend(backend)
    return (
        -kb * prod
        + kf * major * minor
        + (kb * prod - kf * major * minor) * be.exp(-t * (kb + kf * major))
    ) / (kb + kf * major)


pseudo_rev.name = "Pseudo first order reversible"


def binary_irrev(t, kf, prod, major, minor, backend=None):
    """Analytic product transient of a irreversible 2-to-1 reaction.

    Product concentration vs time from second order irreversible kinetics.

    Parameters
    ----------
    t : float, Symbol or array_like
    kf : number or Symbol
        Forward (bimolecular) rate constant.
    prod : number or Symbol
        Initial concentration of the complex.
    major : number or Symbol
        Initial concentration of the more abundant reactant.
    minor : number or Symbol
        Initial concentration of the less abundant reactant.
    backend : module or str
        Default is 'numpy', can also be e.g. ``sympy``.

    """
    be = get_backend(backend)
    return prod + major * (1 - be.exp(-kf * (major - minor) * t)) / (
        major / minor - be.exp(-kf * t * (major - minor))
    )


binary_irrev.name = "Second order irreversible"


def binary_rev(t, kf, kb, prod, major, minor, backend=None):
    """Analytic product transient of a reversible 2-to-1 reaction.

    Product concentration vs time from second order reversible kinetics.

    Parameters
    ----------
    t : float, Symbol or array_like
        Time.
    kf : number or Symbol
        Forward (bimolecular) rate constant.
    kb : number or Symbol
        Backward (unimolecular) rate constant.
    prod : number or Symbol
        Initial concentration of the complex.
    major : number or Symbol
        Initial concentration of the more abundant reactant.
    minor : number or Symbol
        Initial concentration of the less abundant reactant.
    backend : module or str
        Default is 'numpy', can also be e.g. ``sympy``.

    """
    # see _integrated.ipynb for derivation
    be = get_backend(backend)
    X, Y, Z = prod, major, minor
    x0 = Y * kf
    x1 = Z * kf
    x2 = 2 * X * kf
    x3 = -kb - x0 - x1
    x4 = -x2 + x3
    x5 = be.sqrt(-4 * kf * (X ** 2 * kf + X * x0 + X * x1 + Z * x0) + x4 ** 2)
    x6 = kb + x0 + x1 + x5
    x7 = (x3 + x5) * be.exp(-t * x5)
    x8 = x3 - x5
    return (x4 * x8 + x5 * x8 + x7 * (x2 + x6)) / (2 * kf * (x6 + x7))


binary_rev.name = "Second order reversible"


def unary_irrev_cstr(t, k, r, p, fr, fp, fv, backend=None):
    """Analytic solution for ``A -> B`` in a CSTR.

    Analytic solution for a first order process in a continuously
    stirred tank reactor (CSTR).

    Parameters
    ----------
    t : array_like
    k : float_like
        Rate constant
    r : float_like
        Initial concentration of reactant.
    p : float_like
        Initial concentration of product.
    fr : float_like
        Concentration of reactant in feed.
    fp : float_like
        Concentration of product in feed.
    fv : float_like
        Feed rate / tank volume ratio.
    backend : module or str
        Default is 'numpy', can also be e.g. ``sympy``.

    Returns
    -------
    length-2 tuple
        concentrations of reactant and product

    """
    # See _kinetics_cstr.ipynb
    be = get_backend(backend)
    x0 = fr * fv
    x1 = fv + k
    x2 = 1 / x1
    x3 = fv * r + k * r - x0
    x4 = fr * k
    x5 = be.exp(-fv * t)
    return (
        x0 * x2 + x2 * x3 * be.exp(-t * x1),
        -x2 * x3 * x5 * (-1 + be.exp(-k * t))
        + x2 * x5 * (-fp * fv - fp * k + fv * p + k * p - x4)
        + x2 * (fp * x1 + x4),
    )


def binary_irrev_cstr(t, k, r, p, fr, fp, fv, n=1, backend=None):
    """Analytic solution for ``2 A -> n B`` in a CSTR.

    Parameters
    ----------
    t : array_like
    k : float_like
        Rate constant
    r : float_like
        Initial concentration of reactant.
    p : float_like
        Initial concentration of product.
    fr : float_like
        Concentration of reactant in feed.
    fp : float_like
        Concentration of product in feed.
    fv : float_like
        Feed rate / tank volume ratio.
    n : int
    backend : module or str
        Default is 'numpy', can also be e.g. ``sympy``.

    Returns
    -------
    length-2 tuple
        concentrations of reactant and product

    """
    # Mathematica source:
    # FortranForm[
    # DSolve[{Derivative[1][A][t] == a0 f - f A[t] - 2 k A[t]^2,
    #   Derivative[1][B][t] == b0 f + n*k A[t]^2 - f B[t], A[0] == x,
    #   B[0] == y}, {A[t], B[t]}, {t}]]
    # Post processed using sympy's cse function.
    # (see _derive_analytic_cstr_bireac.ipynb)
    be = get_backend(backend)
    atanh = be.atanh if hasattr(be, "atanh") else be.arctanh
    three = 3 * be.cos(0)

    x0 = 1 / k
    x1 = be.sqrt(fv)
    x2 = 8 * k
    x3 = fr * x2
    x4 = be.sqrt(fv + x3)
    x5 = x1 * x4
    x6 = x1 * x4 / 2
    x7 = atanh((-(fv ** (three / 2)) * x4 - 4 * k * r * x5) / (fv ** 2 + fv * x3))
    x8 = fv * t
    x9 = fp * x2
    x10 = 4 * k * n
    x11 = fr * x10
    x12 = be.exp(x8)
    x13 = n * x12
    return (
        x0 * (-fv + x5 * be.tanh(t * x6 - x7)) / 4,
        x0
        * (
            fv * x13
            + 8 * k * p
            + r * x10
            - x1 * x13 * x4 * be.tanh(x6 * (t - 2 * x7 / (x1 * x4)))
            + x11 * x12
            - x11
            + x12 * x9
            - x9
        )
        * be.exp(-x8)
        / 8,
    )
