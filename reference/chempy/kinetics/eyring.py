# -*- coding: utf-8 -*-
"""
Contains functions for the `Eyring equation
<https://en.wikipedia.org/wiki/Eyring_equation>`_.
"""

import math

from .._util import get_backend
from ..util.pyutil import defaultnamedtuple
from ..units import default_units, Backend, default_constants, format_string
from .arrhenius import _get_R, _fit

try:
    import numpy as np
except ImportError:
    np = None


def _get_kB_over_h(constants=None, units=None):
    if constants is None:
        kB_over_h = 2.083664399411865234375e10
        if units is not None:
            s = units.second
            K = units.kelvin
            kB_over_h /= s * K
    else:
        kB_over_h = constants.Boltzmann_constant / constants.Planck_constant
    return kB_over_h


def eyring_equation(dH, dS, T, constants=None, units=None, backend=None):
    """
    Returns the rate coefficient according to the Eyring equation

    Parameters
    ----------
    dH: float with unit
        Enthalpy of activation.
    dS: float with unit
        Entropy of activation.
    T: float with unit
        temperature
    constants: object (optional, default: None)
        if None:
            T assumed to be in Kelvin, Ea in J/(K mol)
        else:
            attributes accessed: molar_gas_constant
            Tip: pass quantities.constants
    units: object (optional, default: None)
        attributes accessed: Joule, Kelvin and mol
    backend: module (optional)
        module with "exp", default: numpy, math

    """
    be = get_backend(backend)
    R = _get_R(constants, units)
    kB_over_h = _get_kB_over_h(constants, units)

    try:
        RT = (R * T).rescale(dH.dimensionality)
    except AttributeError:
        RT = R * T

    try:
        kB_over_h = kB_over_h.simplified
    except AttributeError:
        pass

    return kB_over_h * T * be.exp(dS / R) * be.exp(-dH / RT)


def fit_eyring_equation(T, k, kerr=None, linearized=False, constants=None, units=None):
    """Curve fitting of the Eyring equation to data points

    Parameters
    ----------
    T : float
    k : array_like
    kerr : array_like (optional)
    linearized : bool

    """
    R = _get_R(constants, units)
    ln_kb_over_h = math.log(_get_kB_over_h(constants, units))
    return _fit(
        T,
        k,
        kerr,
        eyring_equation,
        lambda T, k: 1 / T,
        lambda T, k: np.log(k / T),
        [lambda p: -p[1] * R, lambda p: R * (p[0] - ln_kb_over_h)],
        linearized=linearized,
    )


class EyringParam(defaultnamedtuple("EyringParam", "dH dS ref", [None])):
    """Kinetic data in the form of an Eyring parameterisation

    Parameters
    ----------
    dH : float
        Enthalpy of activation.
    dS : float
        Entropy of activation.
    ref: object (default: None)
        arbitrary reference (e.g. citation key or dict with bibtex entries)

    Examples
    --------
    >>> k = EyringParam(72e3, 61.4)
    >>> '%.5g' % k(298.15)
    '2435.4'

    """

    def __call__(self, T, constants=None, units=None, backend=None):
        """Evaluates the Eyring equation for a specified state

        Parameters
        ----------
        T : float
        constants : module (optional)
        units : module (optional)
        backend : module (default: math)

        See also
        --------
        chempy.eyring.eyring_equation : the function used here

        """
        return eyring_equation(
            self.dH, self.dS, T, constants=constants, units=units, backend=backend
        )

    def kB_h_times_exp_dS_R(self, constants=None, units=None, backend=math):
        R = _get_R(constants, units)
        kB_over_h = _get_kB_over_h(constants, units)
        return kB_over_h * backend.exp(self.dS / R)

    def dH_over_R(self, constants=None, units=None, backend=None):
        R = _get_R(constants, units)
        return self.dH / R

    def as_RateExpr(self, unique_keys=None, constants=None, units=None, backend=math):
        from .rates import Eyring, MassAction

        args = [
            self.kB_h_times_exp_dS_R(constants, units, backend),
            self.dH_over_R(constants, units),
        ]
        return MassAction(Eyring(args, unique_keys))

    def format(self, precision, tex=False):
        try:
            str_A, str_A_unit = format_string(self.A, precision, tex)
            str_Ea, str_Ea_unit = format_string(self.Ea, precision, tex)
        except Exception:
            str_A, str_A_unit = precision.format(self.A), "-"
            str_Ea, str_Ea_unit = precision.format(self.Ea), "-"
        return (str_A, str_A_unit), (str_Ea, str_Ea_unit)

    def equation_as_string(self, precision, tex=False):
        (str_A, str_A_unit), (str_Ea, str_Ea_unit) = self.format(precision, tex)
        if tex:
            return (
                r"\frac{{k_B T}}{{h}}\exp \left(\frac{{{}}}{{R}} \right)"
                r" \exp \left(-\frac{{{}}}{{RT}} \right)"
            ).format(str_A, str_Ea + " " + str_Ea_unit), str_A_unit
        else:
            return (
                "kB*T/h*exp({}/R)*exp(-{}/(R*T))".format(
                    str_A, str_Ea + " " + str_Ea_unit
                ),
                str_A_unit,
            )

    def __str__(self):
        return self.equation_as_string("%.5g")


class EyringParamWithUnits(EyringParam):
    def __call__(
        self, state, constants=default_constants, units=default_units, backend=None
    ):
        """See :func:`chempy.eyring.eyring_equation`."""
        if backend is None:
            backend = Backend()
        return super(EyringParamWithUnits, self).__call__(
            state, constants, units, backend
        )

    def as_RateExpr(
        self,
        unique_keys=None,
        constants=default_constants,
        units=default_units,
        backend=None,
    ):
        if backend is None:
            backend = Backend()
        return super(EyringParamWithUnits, self).as_RateExpr(
            unique_keys, constants, units, backend
        )
