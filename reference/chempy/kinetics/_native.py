# -*- coding: utf-8 -*-
"""
Non-public API (expect changes without notice).

Helper functions for using native code generation together with pyodesys.
"""

from collections import OrderedDict

try:
    from pyodesys.native import native_sys
except ImportError:
    native_sys = None
    PartiallySolvedSystem = None
    render_mako = None
else:
    from pyodesys.symbolic import PartiallySolvedSystem
    from pyodesys.native.util import render_mako


from .. import Substance

_anon = """
    template <typename T>
    constexpr T vecmin(T&& a){
        return std::forward<T>(a);
    }
    template <typename T1, typename T2>
    constexpr typename std::common_type<T1, T2>::type vecmin(T1&& a, T2&& b){
        return (a < b) ? std::forward<T1>(a) : std::forward<T2>(b);
    }
    template <typename T, typename... Ts>
    constexpr typename std::common_type<T, Ts...>::type vecmin(T&& a, Ts&&... args){
        return vecmin(std::forward<T>(a), vecmin(std::forward<Ts>(args)...));
    }
    std::vector<double> upper_conc_bounds(const double * const y){
        auto bounds = std::vector<double>(${odesys.ny});
        double cc[${ncomp}];
      % for ci in range(ncomp):
        cc[${ci}] = ${' + '.join([('%d*y[%d]' % (v, k)) if v != 1 else 'y[%d]' % k for k, v in comp_conc[ci].items()])};
      % endfor
      % for si, subst_key in enumerate(getattr(odesys, 'free_names', odesys.names)):
       % if len(subst_comp[si]) > 0:
        bounds[${si}] = vecmin(${', '.join(['INFINITY' if n == 0 else ('cc[%d]/%d' % (ci, n)) if n != 1 else 'cc[%d]' % ci for ci, n in subst_comp[si].items()])});
       % else:
        bounds[${si}] = INFINITY;
       % endif
      % endfor
        return bounds;
    }
"""  # noqa


_first_step = """
    m_upper_bounds = upper_conc_bounds(${init_conc});
    m_lower_bounds.resize(${odesys.ny});
    return m_rtol*std::min(get_dx_max(x, y), 1.0);
"""

_roots_ss = """
    const int ny = get_ny();
    std::vector<double> f(ny);
    double tot=0.0;
    rhs(x, y, &f[0]);
    for (int i=0; i<ny; ++i){
        tot += std::min(std::abs(f[i]/m_atol[i]), std::abs(f[i]/y[i]/m_rtol));  // m_atol needs to be of size ny!
    }
    out[0] = tot/ny - m_special_settings[0];
    this->nrev++;
    return AnyODE::Status::success;
"""

_constr_special_settings = r"""
    if (m_special_settings.size() == 0){
         std::cerr << __FILE__ << ":" << __LINE__ << ": no special_settings passed, using default [%(factor)s]\n";
         m_special_settings = {%(factor)s};
    } else {
         // std::cerr << __FILE__ << ":" << __LINE__ << ": using special_settings:" << m_special_settings[0] << "\n";
    }
""" % {
    "factor": "1e2"
}


def _get_comp_conc(rsys, odesys, comp_keys, skip_keys):
    comp_conc = []
    for comp_key in comp_keys:
        if comp_key in skip_keys:
            continue  # see Substance.__doc__
        _d = OrderedDict()
        for si, subst_key in enumerate(odesys.names):
            coeff = rsys.substances[subst_key].composition.get(comp_key, 0)
            if coeff != 0:
                _d[si] = coeff
        comp_conc.append(_d)
    return comp_conc


def _get_subst_comp(rsys, odesys, comp_keys, skip_keys):
    subst_comp = []
    for subst_key in odesys.names:
        _d = OrderedDict()
        for k, v in rsys.substances[subst_key].composition.items():
            if k in skip_keys:
                continue
            _d[comp_keys.index(k)] = v
        subst_comp.append(_d)
    return subst_comp


def get_native(
    rsys, odesys, integrator, skip_keys=(0,), steady_state_root=False, conc_roots=None
):
    comp_keys = Substance.composition_keys(
        rsys.substances.values(), skip_keys=skip_keys
    )
    if PartiallySolvedSystem is None:
        raise ValueError("Failed to import 'native_sys' from 'pyodesys.native'")
    elif isinstance(odesys, PartiallySolvedSystem):
        init_conc = "&m_p[%d]" % (len(odesys.params) - len(odesys.original_dep))
    else:
        init_conc = "y"

    kw = dict(
        namespace_override={
            "p_get_dx_max": True,
        }
    )
    if all(subst.composition is None for subst in rsys.substances.values()):
        pass
    else:
        kw["namespace_override"]["p_anon"] = render_mako(
            _anon,
            odesys=odesys,
            ncomp=len(comp_keys),
            comp_conc=_get_comp_conc(rsys, odesys, comp_keys, skip_keys),
            subst_comp=_get_subst_comp(rsys, odesys, comp_keys, skip_keys),
        )
        kw["namespace_override"]["p_first_step"] = render_mako(
            _first_step, init_conc=init_conc, odesys=odesys
        )
    ns_extend = kw.get("namespace_extend", {})

    if steady_state_root or conc_roots:
        if not native_sys[integrator]._NativeCode._support_roots:
            raise ValueError("integrator '%s' does not support roots." % integrator)
        if odesys.roots is not None:
            raise ValueError("roots already set")
    if steady_state_root:
        assert conc_roots is None
        kw["namespace_override"]["p_nroots"] = " return 1; "
        kw["namespace_override"]["p_roots"] = _roots_ss
        if "p_constructor" not in ns_extend:
            ns_extend["p_constructor"] = []
        ns_extend["p_constructor"] += [_constr_special_settings]
    elif conc_roots:
        # This could (with some effort) be rewritten to take limits as parameters and have a
        # preprocessor in odesys.pre_processors do the dedimensionalization.
        assert not steady_state_root
        assert all(k in odesys.names and k in rsys.substances for k in conc_roots)
        kw["namespace_override"]["p_nroots"] = " return %d; " % len(conc_roots)
        kw["namespace_override"]["p_roots"] = (
            "".join(
                [
                    "    out[%(i)d] = y[%(j)d] - m_special_settings[%(i)d];\n"
                    % dict(i=i, j=odesys.names.index(k))
                    for i, k in enumerate(conc_roots)
                ]
            )
            + "    return AnyODE::Status::success;\n"
        )
        if "p_constructor" not in ns_extend:
            ns_extend["p_constructor"] = []
        ns_extend["p_constructor"] += [
            'if (m_special_settings.size() != %d) throw std::runtime_error("special_settings missing");'
            % len(conc_roots)
        ]

    if "p_includes" not in ns_extend:
        ns_extend["p_includes"] = set()
    ns_extend["p_includes"] |= {"<type_traits>", "<vector>"}
    return native_sys[integrator].from_other(odesys, namespace_extend=ns_extend, **kw)
