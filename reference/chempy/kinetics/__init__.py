"""
This package collects functions useful for studying chemical kinetics problems.
"""

from .rates import MassAction, EyringHS
from .eyring import EyringParam
from .arrhenius import ArrheniusParam
