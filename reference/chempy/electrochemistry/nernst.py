# -*- coding: utf-8 -*-
import math


def nernst_potential(
    ion_conc_out, ion_conc_in, charge, T, constants=None, units=None, backend=math
):
    """
    Calculates the Nernst potential using the Nernst equation for a particular
    ion.

    Parameters
    ----------
    ion_conc_out : float with unit
        Extracellular concentration of ion.
    ion_conc_in : float with unit
        Intracellular concentration of ion.
    charge : integer
        Charge of the ion.
    T : float with unit
        Absolute temperature.
    constants : object (optional, default: None)
        Constant attributes accessed:
            F - Faraday constant
            R - Ideal Gas constant
    units : object (optional, default: None)
        Unit attributes: coulomb, joule, kelvin, mol.
    backend : module (optional, default: math)
        Module used to calculate log using `log` method, can be substituted
        with sympy to get symbolic answers.

    Returns
    -------
    Membrane potential.

    """
    if constants is None:
        F = 96485.33289
        R = 8.3144598
        if units is not None:
            F *= units.coulomb / units.mol
            R *= units.joule / units.kelvin / units.mol
    else:
        F = constants.Faraday_constant
        R = constants.molar_gas_constant

    ratio = ion_conc_out / ion_conc_in
    try:
        ratio = ratio.simplified  # e.g. mM/M is a pure number only after rescaling
    except AttributeError:
        pass
    return (R * T) / (charge * F) * backend.log(ratio)
