# -*- coding: utf-8 -*-
