# -*- coding: utf-8 -*-
"""
ChemPy is a Python package useful for solving problems in chemistry.
"""


from ._url import __url__
from ._release import __version__
from .chemistry import (
    Substance,
    Reaction,
    Equilibrium,
    Species,
    balance_stoichiometry,
    mass_fractions,
)
from .reactionsystem import ReactionSystem
from .henry import Henry
from .util.periodic import atomic_number
from .kinetics import EyringParam, EyringHS, MassAction

from .util.pyutil import ChemPyDeprecationWarning

from . import henry

import sys

if sys.version_info < (3, 5, 0):
    import warnings

    warnings.warn(
        "Use 'chempy<0.7' if using python versions < 3.5", ChemPyDeprecationWarning
    )
