from .numbers import number_to_scientific_latex
from .string import StrPrinter
from ..units import _latex_from_dimensionality


class LatexPrinter(StrPrinter):

    _default_settings = dict(
        StrPrinter._default_settings,
        repr_name="latex",
        Equilibrium_arrow=r"\rightleftharpoons",
        Reaction_arrow=r"\rightarrow",
        magnitude_fmt=number_to_scientific_latex,
        unit_fmt=_latex_from_dimensionality,
    )

    def _print_Substance(self, substance, **kwargs):
        return substance.latex_name or substance.name


def latex(obj, **settings):
    return LatexPrinter(settings).doprint(obj)
