from itertools import chain


class Printer(object):
    _str = str  # set to unicdoe int UnicodePrinter for Python 2
    _default_settings = dict(
        with_param=True,
        with_name=True,
        fallback_print_fn=str,
        Reaction_param_separator="; ",
        Reaction_coeff_space=" ",
        Reaction_around_arrow=(" ", " "),
        magnitude_fmt=lambda x: "%.3g" % x,
    )
    _default_setting_factories = dict(
        substances=dict,
        colors=dict,  # substance key -> (bg-color, border-color), 6 char hex colors
    )
    _default_setting_attrs = dict(
        Reaction_coeff_fmt="_str",
        Reaction_formula_fmt="_str",
        unit_fmt="_str",
    )
    printmethod_attr = (
        None  # e.g. '_html' or '_unicode', allows object local printing logic
    )

    def __init__(self, settings=None):
        self._settings = dict(self._default_settings, **(settings or {}))
        for k, v in self._default_setting_factories.items():
            if k not in self._settings:
                self._settings[k] = v()
        for k, v in self._default_setting_attrs.items():
            if k not in self._settings:
                self._settings[k] = getattr(self, v)
        for k in self._settings:
            if k not in chain(
                self._default_settings,
                self._default_setting_factories,
                self._default_setting_attrs,
            ):
                raise ValueError(
                    "Unknown setting: %s (missing in default_settings)" % k
                )

    def _get(self, key, **kwargs):
        return kwargs.get(key, self._settings[key])

    def _print(self, obj, **kwargs):
        for cls in type(obj).__mro__:
            print_meth = "_print_" + cls.__name__
            if hasattr(self, print_meth):
                return getattr(self, print_meth)(obj, **kwargs)
            for PrintCls in self.__class__.__mro__:
                _attr = getattr(PrintCls, "printmethod_attr", None)
                if _attr and hasattr(obj, _attr):
                    return getattr(obj, _attr)(self, **kwargs)
        fn = self._get("fallback_print_fn", **kwargs)
        if fn:
            return fn(obj)
        else:
            raise ValueError("Don't know how to print obj of type: %s" % type(obj))

    def doprint(self, obj):
        return self._print(obj)
