from .numbers import number_to_scientific_html
from .string import StrPrinter


def _html_clsname(key):
    return "chempy_" + key.replace("+", "plus").replace("-", "minus").replace(
        "(", "leftparen"
    ).replace(")", "rightparen")


_html_semicolon = "&#59; "


class HTMLPrinter(StrPrinter):

    printmethod_attr = "_html"
    _default_settings = dict(
        StrPrinter._default_settings,
        repr_name="html",
        Equilibrium_arrow="&harr;",
        Reaction_arrow="&rarr;",
        Reaction_param_separator=_html_semicolon,
        magnitude_fmt=number_to_scientific_html,
    )

    def _print_Substance(self, s, **kwargs):
        return s.html_name or s.name

    def _print_ReactionSystem(self, rsys, **kwargs):
        return (
            super(HTMLPrinter, self)
            ._print_ReactionSystem(rsys, **kwargs)
            .replace("\n", "<br>\n")
        )


def html(obj, **settings):
    return HTMLPrinter(settings).doprint(obj)


class CSSPrinter(HTMLPrinter):
    def _print_Substance(self, s, **kwargs):
        key = s.name
        name = s.html_name or key
        common_sty = "border-radius: 5pt; padding: 0pt 3pt 0pt 3pt;"
        colors = self._get("colors", **kwargs)
        if key in colors:
            style = "background-color:#%s; border: 1px solid #%s; %s" % (
                colors[key] + (common_sty,)
            )
        else:
            style = common_sty
        fmt = '<span class="%s" style="%s">%s</span>'
        return fmt % (_html_clsname(key), style, name)

    def _tr_id(self, rsys, i):
        return "chempy_%d_%d" % (id(rsys), i)

    def _print_ReactionSystem(self, rsys, **kwargs):
        sep = '</td><td style="text-align:left;">&nbsp;'
        around = (
            '</td><td style="text-align:center;">',
            '</td><td style="text-align:left;">',
        )
        # cf. https://github.com/jupyter/notebook/issues/2160#issuecomment-352216152
        row_template = '<tr class="%s"><td style="text-align:right;">%s</td></tr>'
        rows = [
            row_template % (self._tr_id(rsys, i), s)
            for i, s in enumerate(
                map(
                    lambda r: self._print(
                        r, Reaction_param_separator=sep, Reaction_around_arrow=around
                    ),
                    rsys.rxns,
                )
            )
        ]
        tab_template = '<table class="chempy_ReactionSystem chempy_%d">%s%s</table>'
        header = '<tr><th style="text-align:center;" colspan="5">%s</th></tr>' % (
            rsys.name or ""
        )
        return tab_template % (id(rsys), header, "\n\n".join(rows))


def css(obj, **settings):
    return CSSPrinter(settings).doprint(obj)
