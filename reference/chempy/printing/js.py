import json
from .web import CSSPrinter, _html_clsname

_js_rsys_template = """
var cls_names_substances = %(cls_names_substances)s;
var substance_row_cls_irrel = %(substance_row_cls_irrel)s;
var elms = {};
var n = {}, nsubstances = cls_names_substances.length;
var nirrel = {};
function changeColor(classname, color) {
    var curN = n[classname];
    for(var i = 0; i < curN; i++) {
        elms[classname][i].style.backgroundColor = color;
    }
}
function toggleVisibility(classname_substance) {
    var curN = nirrel[classname_substance];
    for (var i=0; i<curN; i++) {
        var objs = document.getElementsByClassName(substance_row_cls_irrel[classname_substance][i]);
        for (var j=0; j<objs.length; ++j){
            objs[j].style.display = objs[j].style.display == "none" ? "table-row" : "none";
        }
    }
}
function resetTab(tab){
    tab.style.border = "0px";
    var rows = tab.getElementsByTagName('tr');
    [].forEach.call(rows, function(row){
        row.style.display = "table-row";
    });
    tab.getElementsByTagName('th')[0].innerHTML = tab.ori_header +
        "<br>(click on species to show a subset of reactions)";
};

for(var k = 0; k < nsubstances; k++) {
    var curClass = cls_names_substances[k];
    var curIrrel = substance_row_cls_irrel[k];
    elms[curClass] = document.getElementsByClassName(curClass);
    n[curClass] = elms[curClass].length;
    nirrel[curClass] = substance_row_cls_irrel[curClass].length;
    var curN = n[curClass];
    for(var i = 0; i < curN; i++) {
        elms[curClass][i].onmouseover = function() {
            changeColor(this.className, "LightBlue");
        };
        elms[curClass][i].onmouseout = function() {
            changeColor(this.className, "inherit");
        };
        elms[curClass][i].onclick = function() {
            var tab = this.closest("table");
            resetTab(tab);
            tab.style.border = "1px dashed #000000";
            toggleVisibility(this.className);
            tab.getElementsByTagName('th')[0].innerHTML = tab.ori_header +
                 "<br>Only showing reactions involving: " + this.innerHTML +
                 " (double-click to reset)";
        };
    }
};
var chempy_tabs = document.querySelectorAll('table.chempy_%(rsys_id)d');
[].forEach.call(chempy_tabs, function(tab){
    tab.ori_header = tab.getElementsByTagName('th')[0].innerHTML;
    tab.ondblclick = function(){
        resetTab(this);
        this.scrollIntoView();
    };
});
[].forEach.call(chempy_tabs, function(tab){
    resetTab(tab);
});
"""


def _js_rsys(cls_names_substances, substance_row_cls_irrel, rsys_id):
    # from https://stackoverflow.com/a/12786869/790973
    if cls_names_substances is None:
        return ""
    return _js_rsys_template % dict(
        cls_names_substances=json.dumps(cls_names_substances),
        substance_row_cls_irrel=json.dumps(substance_row_cls_irrel),
        rsys_id=rsys_id,
    )


class JSPrinter(CSSPrinter):
    """Prints javascript-enabled HTML representations"""

    def _print_ReactionSystem(self, rsys, **kwargs):
        tab = super(JSPrinter, self)._print_ReactionSystem(rsys, **kwargs)
        _script_tag = '<script type="text/javascript">%s</script>'
        substances = self._get("substances", **kwargs)
        cls_names_substances = list(map(_html_clsname, substances))
        return tab + _script_tag % _js_rsys(
            cls_names_substances=cls_names_substances,
            substance_row_cls_irrel={
                cns: [  # reactions not involving sk
                    self._tr_id(rsys, i)
                    for i in range(rsys.nr)
                    if i not in rsys.substance_participation(sk)
                ]
                for cns, sk in zip(cls_names_substances, substances)
            },
            rsys_id=id(rsys),
        )


def javascript(obj, **settings):
    return JSPrinter(settings).doprint(obj)
