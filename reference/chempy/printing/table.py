# -*- coding: utf-8 -*-

from collections import OrderedDict
from ..chemistry import Substance
from .numbers import number_to_scientific_html


class Table(object):
    def __init__(self, rows, headers=None):
        self.rows, self.headers = rows, headers

    def _html(self, printer, **kwargs):
        def map_fmt(cont, fmt, joiner="\n"):
            return joiner.join(map(lambda x: fmt % printer._print(x, **kwargs), cont))

        rows = [map_fmt(self.headers, "<th>%s</th>")] + [
            map_fmt(row, "<td>%s</td>") for row in self.rows
        ]
        return "<table>%s</table>" % map_fmt(rows, "<tr>%s</tr>")

    def _repr_html_(self):
        from .web import html

        return html(self)


def as_per_substance_html_table(
    cont, substances=None, header=None, substance_factory=Substance.from_formula
):
    """ """
    if substances is None:
        substances = OrderedDict([(k, substance_factory(k)) for k in cont])

    def _elem(k):
        try:
            return cont[k]
        except (IndexError, TypeError):
            return cont[list(substances.keys()).index(k)]

    rows = [
        (v.html_name, number_to_scientific_html(_elem(k)))
        for k, v in substances.items()
    ]
    return Table(rows, ["Substance", header or ""])
