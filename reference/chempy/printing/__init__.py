# -*- coding: utf-8 -*-

from .numbers import (
    number_to_scientific_html,
    number_to_scientific_latex,
    number_to_scientific_unicode,
)
from .table import as_per_substance_html_table
from .js import javascript
from .string import str_
from .pretty import unicode_
from .web import html, css
from .tex import latex
