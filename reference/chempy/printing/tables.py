class _RxnTable(object):

    _rsys_meth = None

    def __init__(
        self,
        idx_rxn_pairs,
        substances,
        colors=None,
        missing=None,
        missing_color="eee8aa",
    ):
        self.idx_rxn_pairs = idx_rxn_pairs
        self.substances = substances
        self.colors = colors or {}
        self.missing = missing or []
        self.missing_color = missing_color

    @classmethod
    def from_ReactionSystem(cls, rsys, color_categories=True):
        idx_rxn_pairs, unconsidered_ri = getattr(rsys, cls._rsys_meth)()
        colors = rsys._category_colors() if color_categories else {}
        missing = [not rsys.substance_participation(sk) for sk in rsys.substances]
        return (
            cls(idx_rxn_pairs, rsys.substances, colors=colors, missing=missing),
            unconsidered_ri,
        )

    def _repr_html_(self):
        from .web import css

        return css(self, substances=self.substances, colors=self.colors)

    def _cell_label_html(self, printer, ori_idx, rxn):
        """Reaction formatting callback. (reaction index -> string)"""
        pretty = rxn.unicode(self.substances, with_param=True, with_name=False)
        return '<a title="%d: %s">%s</a>' % (
            ori_idx,
            pretty,
            printer._print(rxn.name or rxn.param),
        )

    def _cell_html(self, printer, A, ri, ci=None):
        args = []
        if ci is not None and ri > ci:
            r = "-"
        else:
            if ci is None:  # A is a vector
                c = A[ri]
                is_missing = self.missing[ri]
            else:  # A is a matrix
                c = A[ri][ci]
                is_missing = self.missing[ri] or self.missing[ci]

            if c is None:
                r = ""
            else:
                r = ", ".join(self._cell_label_html(printer, *r) for r in c)

            if is_missing:
                args.append('style="background-color: #%s;"' % self.missing_color)

        return "<td %s>%s</td>" % (" ".join(args), r)


class UnimolecularTable(_RxnTable):
    """Table of unimolecular reactions in a ReactionSystem

    Parameters
    ----------
    rsys : ReactionSystem
    sinks_sources_disjoint : tuple, None or True
        Colors sinks & sources. When ``True`` :meth:`sinks_sources_disjoint` is called.
    html_cell_label : Reaction formatting callback
        The function takes an integer, a Reaction instance and a dict of Substances as
        parameters and return a string.

    Returns
    -------
    string: html representation
    list: reactions not considered
    """

    _rsys_meth = "_unimolecular_reactions"

    def _html(self, printer, **kwargs):
        if "substances" not in kwargs:
            kwargs["substances"] = self.substances
        ss = printer._get("substances", **kwargs)
        rows = "\n".join(
            "<tr><td>%s</td>%s</tr>"
            % (printer._print(s), self._cell_html(printer, self.idx_rxn_pairs, rowi))
            for rowi, s in enumerate(ss.values())
        )
        return "<table>%s</table>" % rows


class BimolecularTable(_RxnTable):
    """Table of bimolecular reactions

    Parameters
    ----------
    idx_rxn_pairs : iterable of (int, Reaction) pairs
    substances : dict
        Mapping substance key to Substance instance.
    sinks_sources_disjoint : tuple, None or True
        Colors sinks & sources. When ``True`` :meth:`sinks_sources_disjoint` is called.

    Returns
    -------
    string: html representation
    list: reactions not considered
    """

    _rsys_meth = "_bimolecular_reactions"

    def _html(self, printer, **kwargs):
        if "substances" not in kwargs:
            kwargs["substances"] = self.substances
        ss = printer._get("substances", **kwargs)
        header = "<th></th>" + "".join(
            "<th>%s</th>" % printer._print(s) for s in ss.values()
        )
        rows = [
            "<tr><td>%s</td>%s</tr>"
            % (
                printer._print(s),
                "".join(
                    self._cell_html(printer, self.idx_rxn_pairs, rowi, ci)
                    for ci in range(len(ss))
                ),
            )
            for rowi, s in enumerate(ss.values())
        ]
        return "<table>%s</table>" % "\n".join([header, "\n".join(rows)])
