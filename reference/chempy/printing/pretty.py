# -*- coding: utf-8 -*-
import sys
from .string import StrPrinter
from .numbers import number_to_scientific_unicode


class UnicodePrinter(StrPrinter):

    _default_settings = dict(
        StrPrinter._default_settings,
        repr_name="unicode",
        Equilibrium_arrow=u"⇌",
        Reaction_arrow=u"→",
        magnitude_fmt=number_to_scientific_unicode,
        unit_fmt=lambda dim: (
            dim.unicode
            if sys.version_info[0] > 2
            else dim.unicode.decode(encoding="utf-8")
        ),
    )
    _str = str if sys.version_info[0] > 2 else unicode  # noqa

    def _print_Substance(self, s, **kwargs):
        return s.unicode_name or s.name


def unicode_(obj, **settings):  # Python 2 keyword, hence the trailing '_'
    return UnicodePrinter(settings).doprint(obj)
