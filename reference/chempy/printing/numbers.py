# -*- coding: utf-8 -*-

from math import log10, floor

from ..units import html_of_unit, latex_of_unit, unicode_of_unit, to_unitless, unit_of
from ..util.parsing import _unicode_sup


def roman(num):
    """
    Examples
    --------
    >>> roman(4)
    'IV'
    >>> roman(17)
    'XVII'

    """
    tokens = "M CM D CD C XC L XL X IX V IV I".split()
    values = 1000, 900, 500, 400, 100, 90, 50, 40, 10, 9, 5, 4, 1
    result = ""
    for t, v in zip(tokens, values):
        cnt = num // v
        result += t * cnt
        num -= v * cnt
    return result


def _mag(num):
    return int(floor(log10(abs(num))))


def _float_str_w_uncert(x, xe, precision=2):
    """Prints uncertain number with parenthesis

    Parameters
    ----------
    x : nominal value
    xe : uncertainty
    precision : number of significant digits in uncertainty

    Examples
    --------
    >>> _float_str_w_uncert(-9.99752e5, 349, 3)
    '-999752(349)'
    >>> _float_str_w_uncert(-9.99752e15, 349e10, 2)
    '-9.9975(35)e15'
    >>> _float_str_w_uncert(3.1416, 0.029, 1)
    '3.14(3)'
    >>> _float_str_w_uncert(3.1416e9, 2.9e6, 1)
    '3.142(3)e9'

    Returns
    -------
    shortest string representation of "x +- xe" either as
    ``x.xx(ee)e+xx`` or ``xxx.xx(ee)``

    Notes
    -----
    The code in this function is from a question on StackOverflow:
        http://stackoverflow.com/questions/6671053
        written by:
            Lemming, http://stackoverflow.com/users/841562/lemming
        the code is licensed under 'CC-WIKI'.
        (see: http://blog.stackoverflow.com/2009/06/attribution-required/)

    """
    # base 10 exponents
    x_exp = int(floor(log10(abs(x))))
    xe_exp = int(floor(log10(abs(xe))))

    # uncertainty
    un_exp = xe_exp - precision + 1
    un_int = round(xe * 10 ** (-un_exp))

    # nominal value
    no_exp = un_exp
    no_int = round(x * 10 ** (-no_exp))

    # format - nom(unc)exp
    fieldw = x_exp - no_exp
    fmt = "%%.%df" % fieldw
    result1 = (fmt + "(%.0f)e%d") % (no_int * 10 ** (-fieldw), un_int, x_exp)

    # format - nom(unc)
    fieldw = max(0, -no_exp)
    fmt = "%%.%df" % fieldw
    result2 = (fmt + "(%.0f)") % (no_int * 10 ** no_exp, un_int * 10 ** max(0, un_exp))

    # return shortest representation
    if len(result2) <= len(result1):
        return result2
    else:
        return result1


def _number_to_X(number, uncertainty, unit, fmt, unit_fmt, fmt_pow_10, space=" "):
    uncertainty = uncertainty or getattr(number, "uncertainty", None)
    unit = unit or unit_of(number)
    integer_one = 1
    if unit is integer_one:
        unit_str = ""
        mag = number
    else:
        unit_str = space + unit_fmt(unit)
        mag = to_unitless(number, unit)
        if uncertainty is not None:
            uncertainty = to_unitless(uncertainty, unit)

    if uncertainty is None:
        if fmt is None:
            fmt = 5
        if isinstance(fmt, int):
            flt = ("%%.%dg" % fmt) % mag
        else:
            flt = fmt(mag)
    else:
        if fmt is None:
            fmt = 2
        if isinstance(fmt, int):
            flt = _float_str_w_uncert(mag, uncertainty, fmt)
        else:
            flt = fmt(mag, uncertainty)
    if "e" in flt:
        significand, mantissa = flt.split("e")
        return fmt_pow_10(significand, mantissa) + unit_str
    else:
        return flt + unit_str


def _latex_pow_10(significand, mantissa):
    if significand in ("1", "1.0"):
        fmt = "10^{%s}"
    else:
        fmt = significand + r"\cdot 10^{%s}"
    return fmt % str(int(mantissa))


def number_to_scientific_latex(number, uncertainty=None, unit=None, fmt=None):
    r"""Formats a number as LaTeX (optionally with unit/uncertainty)

    Parameters
    ----------
    number : float (w or w/o unit)
    uncertainty : same as number
    unit : unit
    fmt : int or callable

    Examples
    --------
    >>> number_to_scientific_latex(3.14) == '3.14'
    True
    >>> number_to_scientific_latex(3.14159265e-7)
    '3.1416\\cdot 10^{-7}'
    >>> import quantities as pq
    >>> number_to_scientific_latex(2**0.5 * pq.m / pq.s)
    '1.4142\\,\\mathrm{\\frac{m}{s}}'
    >>> number_to_scientific_latex(1.23456, .789, fmt=2)
    '1.23(79)'

    """
    return _number_to_X(
        number, uncertainty, unit, fmt, latex_of_unit, _latex_pow_10, r"\,"
    )


def _unicode_pow_10(significand, mantissa):
    if significand in ("1", "1.0"):
        result = u"10"
    else:
        result = significand + u"·10"
    return result + u"".join(map(_unicode_sup.get, str(int(mantissa))))


def number_to_scientific_unicode(number, uncertainty=None, unit=None, fmt=None):
    u"""Formats a number as unicode (optionally with unit/uncertainty)

    Parameters
    ----------
    number : float (w or w/o unit)
    uncertainty : same as number
    unit : unit
    fmt : int or callable

    Examples
    --------
    >>> number_to_scientific_unicode(3.14) == u'3.14'
    True
    >>> number_to_scientific_unicode(3.14159265e-7) == u'3.1416·10⁻⁷'
    True
    >>> import quantities as pq
    >>> number_to_scientific_unicode(2**0.5 * pq.m / pq.s)
    '1.4142 m/s'

    """
    return _number_to_X(
        number, uncertainty, unit, fmt, unicode_of_unit, _unicode_pow_10
    )


def _html_pow_10(significand, mantissa):
    if significand in ("1", "1.0"):
        result = "10<sup>"
    else:
        result = significand + "&sdot;10<sup>"
    return result + str(int(mantissa)) + "</sup>"


def number_to_scientific_html(number, uncertainty=None, unit=None, fmt=None):
    r"""Formats a number as HTML (optionally with unit/uncertainty)

    Parameters
    ----------
    number : float (w or w/o unit)
    uncertainty : same as number
    unit : unit
    fmt : int or callable

    Examples
    --------
    >>> number_to_scientific_html(3.14) == '3.14'
    True
    >>> number_to_scientific_html(3.14159265e-7)
    '3.1416&sdot;10<sup>-7</sup>'
    >>> number_to_scientific_html(1e13)
    '10<sup>13</sup>'
    >>> import quantities as pq
    >>> number_to_scientific_html(2**0.5 * pq.m / pq.s)
    '1.4142 m/s'

    """
    return _number_to_X(number, uncertainty, unit, fmt, html_of_unit, _html_pow_10)
