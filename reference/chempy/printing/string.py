from operator import itemgetter
from .printer import Printer
from ..units import is_quantity


class StrPrinter(Printer):
    _default_settings = dict(
        Printer._default_settings,
        repr_name="string",
        Equilibrium_arrow="=",
        Reaction_arrow="->",
    )

    def _Reaction_parts(self, rxn, **kwargs):
        str_ = self._str
        coeff_fmt = self._get("Reaction_coeff_fmt", **kwargs)
        formula_fmt = self._get("Reaction_formula_fmt", **kwargs)
        substances = self._get("substances", **kwargs) or {}
        nullstr, space = str_(""), str_(self._get("Reaction_coeff_space"))
        reac, prod, i_reac, i_prod = [
            [
                (
                    ((coeff_fmt(v) + space) if v != 1 else nullstr)
                    + formula_fmt(self._print(substances.get(k, k)))
                )
                for k, v in filter(itemgetter(1), d.items())
            ]
            for d in (rxn.reac, rxn.prod, rxn.inact_reac, rxn.inact_prod)
        ]
        r_str = str_(" + ").join(reac)
        ir_str = (
            str_(" + ( ") + str_(" + ").join(i_reac) + str_(")")
            if len(i_reac) > 0
            else nullstr
        )
        arrow_str = self._get("%s_arrow" % rxn.__class__.__name__, **kwargs)
        p_str = str_(" + ").join(prod)
        ip_str = (
            str_(" + ( ") + str_(" + ").join(i_prod) + str_(")")
            if len(i_prod) > 0
            else nullstr
        )
        return r_str, ir_str, arrow_str, p_str, ip_str

    def _Reaction_str(self, rxn, **kwargs):
        fmtstr = self._str("{}{}%s{}%s{}{}") % self._get(
            "Reaction_around_arrow", **kwargs
        )
        return fmtstr.format(*self._Reaction_parts(rxn, **kwargs))

    def _Reaction_param_str(self, rxn, **kwargs):
        mag_fmt = self._get("magnitude_fmt", **kwargs)
        unit_fmt = self._get("unit_fmt", **kwargs)
        try:
            magnitude_str = mag_fmt(rxn.param.magnitude)
            unit_str = unit_fmt(rxn.param.dimensionality)
        except AttributeError:
            if is_quantity(rxn.param) or isinstance(rxn.param, (float,)):
                return mag_fmt(rxn.param)
            else:
                return str(rxn.param)
        else:
            return magnitude_str + self._str(" ") + unit_str

    def _print_Reaction(self, rxn, **kwargs):
        res = self._Reaction_str(rxn, **kwargs)
        if self._get("with_param", **kwargs) and rxn.param is not None:
            res += self._get("Reaction_param_separator", **kwargs)
            try:
                res += getattr(rxn.param, self._get("repr_name", **kwargs))(
                    self._get("magnitude_fmt", **kwargs)
                )
            except AttributeError:
                res += self._Reaction_param_str(rxn, **kwargs)
        if self._get("with_name", **kwargs) and rxn.name is not None:
            res += self._get("Reaction_param_separator", **kwargs)
            res += rxn.name
        return res

    def _print_ReactionSystem(self, rsys, **kwargs):
        header = (rsys.name + "\n") if rsys.name else ""
        return header + "\n".join(map(self._print, rsys.rxns)) + "\n"


def str_(obj, **settings):  # Python keyword, hence the trailing '_'
    return StrPrinter(settings).doprint(obj)
