# -*- coding: utf-8 -*-

from functools import reduce
from operator import mul, add

try:
    import numpy as np
    from numpy import any as _any

    def prodpow(bases, exponents):
        """
        Examples
        --------
        >>> prodpow([2, 3], np.array([[0, 1], [1, 2]]))
        array([ 3, 18])

        """
        exponents = np.asarray(exponents)
        return np.multiply.reduce(bases ** exponents, axis=-1)


except ImportError:  # no NumPy available

    def _any(arg):
        if arg is True:
            return True
        if arg is False:
            return False
        return any(arg)

    def prodpow(bases, exponents):
        """
        Examples
        --------
        >>> prodpow([2, 3], [[0, 1], [1, 2]])
        [3, 18]

        """
        result = []
        for row in exponents:
            res = 1
            for b, e in zip(bases, row):
                res *= b ** e
            result.append(res)
        return result


def get_backend(backend):
    if isinstance(backend, str):
        backend = __import__(backend)
    if backend is None:
        try:
            import numpy as backend
        except ImportError:
            import math as backend
    return backend


def intdiv(p, q):
    """Integer division which rounds toward zero

    Examples
    --------
    >>> intdiv(3, 2)
    1
    >>> intdiv(-3, 2)
    -1
    >>> -3 // 2
    -2

    """
    r = p // q
    if r < 0 and q * r != p:
        r += 1
    return r


def reducemap(args, reduce_op, map_op):
    return reduce(reduce_op, map(map_op, *args))


def vec_dot_vec(vec1, vec2):
    # return np.dot(vec1, vec2)
    # return np.add.reduce(np.multiply(vec1, vec2))
    return reducemap((vec1, vec2), add, mul)


def mat_dot_vec(iter_mat, iter_vec, iter_term=None):  # pure python (slow)
    if iter_term is None:
        return [vec_dot_vec(row, iter_vec) for row in iter_mat]
    else:
        # daxpy
        return [
            vec_dot_vec(row, iter_vec) + term for row, term in zip(iter_mat, iter_term)
        ]


# def composition_balance(substances, concs, composition_number):
#     if not hasattr(concs, 'ndim') or concs.ndim == 1:
#         res = 0
#     elif concs.ndim == 2:
#         res = np.zeros(concs.shape[0])
#         concs = concs.T
#     else:
#         raise NotImplementedError
#     for s, c in zip(substances, concs):
#         res += s.composition.get(composition_number, 0)*c
#     return res
