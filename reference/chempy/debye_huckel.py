# -*- coding: utf-8 -*-

from .util.pyutil import ChemPyDeprecationWarning

import warnings

from .electrolytes import (
    A,
    B,
    limiting_log_gamma,
    extended_log_gamma,
    davies_log_gamma,
    limiting_activity_product,
    extended_activity_product,
    davies_activity_product,
)


warnings.warn("use .electrolytes instead of .debye_huckel", ChemPyDeprecationWarning)
