# -*- coding: utf-8 -*-

from .util.pyutil import ChemPyDeprecationWarning

import warnings

from .kinetics.eyring import eyring_equation, EyringParam, EyringParamWithUnits


warnings.warn("use .kinetics.eyring instead of .eyring", ChemPyDeprecationWarning)
