# -*- coding: utf-8 -*-

from itertools import product
import math

try:
    import numpy as np
except ImportError:
    np = None

from .printing import number_to_scientific_html
from ._util import get_backend, mat_dot_vec, prodpow


class EqCalcResult(object):

    attrs = {
        "sane": bool,
        "success": bool,
        "nfev": int,
        "njev": int,
        "time_cpu": float,
        "time_wall": float,
    }

    def __init__(self, eqsys, init_concs, varied):
        self.eqsys = eqsys
        self.all_inits, self.varied_keys = self.eqsys.per_substance_varied(
            init_concs, varied
        )
        self.conc = np.empty_like(self.all_inits)
        for k, v in self.attrs.items():
            setattr(self, k, np.zeros(self.all_inits.shape[:-1], dtype=v))

    def solve(self, **kwargs):
        for index in product(*map(range, self.all_inits.shape[:-1])):
            slc = tuple(index) + (slice(None),)
            self.conc[slc], nfo, sane = self.eqsys._solve(self.all_inits[slc], **kwargs)
            self.sane[index] = sane

            def _get(k):
                try:
                    return nfo[k]
                except TypeError:
                    return nfo[-1][k]

            for k in self.attrs:
                if k == "sane":
                    continue
                try:
                    getattr(self, k)[index] = _get(k)
                except KeyError:
                    pass

    def _repr_html_(self):
        def fmt(num):
            return number_to_scientific_html(num, fmt=5)

        if len(self.varied_keys) == 0:
            raise NotImplementedError()
        elif len(self.varied_keys) == 1:
            var_html = self.eqsys.substances[self.varied_keys[0]].html_name
            header = ["[%s]<sub>0</sub>" % var_html] + [
                "[%s]" % s.html_name for s in self.eqsys.substances.values()
            ]

            def row(i):
                j = self.eqsys.as_substance_index(self.varied_keys[0])
                return map(fmt, [self.all_inits[i, j]] + self.conc[i, :].tolist())

            pre = "  <td style='font-weight: bold;'>\n      "
            linker = "\n    </td>\n    <td>\n      "
            post = "\n    </td>"
            rows = [
                pre + linker.join(row(i)) + post for i in range(self.all_inits.shape[0])
            ]
            template = """<table>\n  <tr>\n    <th>\n    %s\n    </th>\n  </tr>\n  <tr>\n  %s\n  </tr>\n</table>"""
            head_linker = "\n    </th>\n    <th>\n      "
            row_linker = "\n  </tr>\n  <tr>\n  "
            return template % (head_linker.join(header), row_linker.join(rows))
        else:
            raise NotImplementedError()

    def plot(
        self,
        ls=("-", "--", ":", "-."),
        c=("k", "r", "g", "b", "c", "m", "y"),
        latex=None,
    ):
        import matplotlib.pyplot as plt

        if latex is None:
            latex = next(iter(self.eqsys.substances.values())).latex_name is not None
        if len(self.varied_keys) == 0:
            raise NotImplementedError()
        elif len(self.varied_keys) == 1:
            x = self.all_inits[:, self.eqsys.as_substance_index(self.varied_keys[0])]
            for idx, (k, v) in enumerate(self.eqsys.substances.items()):
                lbl = (r"$\mathrm{" + v.latex_name + "}$") if latex else v.name
                plt.plot(
                    x,
                    self.conc[:, idx],
                    label=lbl,
                    ls=ls[idx % len(ls)],
                    c=c[idx % len(c)],
                )

            ax = plt.gca()

            # Log-log
            ax.set_xscale("log")
            ax.set_yscale("log")

            # Axis labels
            var_latex = self.eqsys.substances[self.varied_keys[0]].latex_name
            ax.set_xlabel((r"$[\mathrm{%s}]_0$" if latex else "[%s]0") % var_latex)
            ax.set_ylabel("Concentration")

            # Outside legend
            box = ax.get_position()
            ax.set_position([box.x0, box.y0, box.width * 0.75, box.height])
            # Put a legend to the right of the current axis
            ax.legend(loc="upper left", bbox_to_anchor=(1, 1))
        else:
            raise NotImplementedError()


class _NumSys(object):

    small = 0  # precipitation limit
    pre_processor = None
    post_processor = None
    internal_x0_cb = None

    def __init__(
        self,
        eqsys,
        rref_equil=False,
        rref_preserv=False,
        backend=None,
        precipitates=(),
        new_eq_params=True,
    ):
        self.eqsys = eqsys
        self.rref_equil = rref_equil
        self.rref_preserv = rref_preserv
        self.backend = get_backend(backend)
        self.precipitates = precipitates
        self.new_eq_params = new_eq_params

    def _get_A_ks(self, eq_params):
        non_precip_rids = self.eqsys.non_precip_rids(self.precipitates)
        return self.eqsys.stoichs_constants(
            self.eqsys.eq_constants(non_precip_rids, eq_params, self.small),
            self.rref_equil,
            backend=self.backend,
            non_precip_rids=non_precip_rids,
        )

    def _inits_and_eq_params(self, params):
        eq_params = params[self.eqsys.ns :]
        if not self.new_eq_params:
            assert not eq_params, "Adjust number of parameters accordingly"
            eq_params = None  # use those of eqsys
        return params[: self.eqsys.ns], eq_params


class NumSysLin(_NumSys):
    def internal_x0_cb(self, init_concs, params):
        # reduce risk of stationary starting point
        return (99 * init_concs + self.eqsys.dissolved(init_concs)) / 100

    def f(self, yvec, params):
        from pyneqsys.symbolic import linear_exprs

        init_concs, eq_params = self._inits_and_eq_params(params)
        A, ks = self._get_A_ks(eq_params)
        # yvec == C
        f_equil = [q / k - 1 if k != 0 else q for q, k in zip(prodpow(yvec, A), ks)]
        B, comp_nrs = self.eqsys.composition_balance_vectors()
        f_preserv = linear_exprs(
            B, yvec, mat_dot_vec(B, init_concs), rref=self.rref_preserv
        )
        return f_equil + f_preserv


class _NumSysLinNegPenalty(NumSysLin):
    def f(self, yvec, params):
        import sympy as sp

        f_penalty = [sp.Piecewise((yi ** 2, yi < 0), (0, True)) for yi in yvec]
        return super(_NumSysLinNegPenalty, self).f(yvec, params) + f_penalty


class NumSysLinRel(NumSysLin):
    def max_concs(self, params, min_=min, dtype=np.float64):
        init_concs = params[: self.eqsys.ns]
        return self.eqsys.upper_conc_bounds(init_concs, min_=min_, dtype=dtype)

    def pre_processor(self, x, params):
        return x / self.max_concs(params), params

    def post_processor(self, x, params):
        return x * self.max_concs(params), params

    def f(self, yvec, params):
        import sympy as sp

        return NumSysLin.f(
            self,
            [
                m * yi
                for m, yi in zip(
                    self.max_concs(params, min_=lambda x: sp.Min(*x), dtype=object),
                    yvec,
                )
            ],
            params,
        )


class NumSysSquare(NumSysLin):

    small = 1e-35

    def pre_processor(self, x, params):
        return (np.sqrt(np.abs(x)), params)

    def post_processor(self, x, params):
        return x ** 2, params

    def internal_x0_cb(self, init_concs, params):
        return np.sqrt(np.abs(init_concs))

    def f(self, yvec, params):
        ysq = [yi * yi for yi in yvec]
        return NumSysLin.f(self, ysq, params)


class NumSysLinTanh(NumSysLin):
    def pre_processor(self, x, params):
        ymax = self.eqsys.upper_conc_bounds(params[: self.eqsys.ns])
        return np.arctanh((8 * x / ymax - 4) / 5), params

    def post_processor(self, x, params):
        ymax = self.eqsys.upper_conc_bounds(params[: self.eqsys.ns])
        return ymax * (4 + 5 * np.tanh(x)) / 8, params

    def internal_x0_cb(self, init_concs, params):
        return self.pre_processor(init_concs, init_concs)[0]

    def f(self, yvec, params):
        import sympy

        ymax = self.eqsys.upper_conc_bounds(
            params[: self.eqsys.ns],
            min_=lambda a, b: sympy.Piecewise((a, a < b), (b, True)),
        )
        ytanh = [yimax * (4 + 5 * sympy.tanh(yi)) / 8 for yimax, yi in zip(ymax, yvec)]
        return NumSysLin.f(self, ytanh, params)


class NumSysLog(_NumSys):

    small = math.exp(-36)  # anything less than `small` is insignificant

    def pre_processor(self, x, params):
        return (
            np.log(np.asarray(x) + NumSysLog.small),  # 10: damping
            params,
        )  # zero conc. ~= small

    def post_processor(self, x, params):
        return np.exp(x), params

    def internal_x0_cb(self, init_concs, params):
        # return [1]*len(init_concs)
        return [0.1] * len(init_concs)

    def f(self, yvec, params):
        from pyneqsys.symbolic import linear_exprs

        init_concs, eq_params = self._inits_and_eq_params(params)
        A, ks = self._get_A_ks(eq_params)
        # yvec == ln(C)
        f_equil = mat_dot_vec(A, yvec, [-self.backend.log(k) for k in ks])
        B, comp_nrs = self.eqsys.composition_balance_vectors()
        f_preserv = linear_exprs(
            B,
            list(map(self.backend.exp, yvec)),
            mat_dot_vec(B, init_concs),
            rref=self.rref_preserv,
        )
        return f_equil + f_preserv
