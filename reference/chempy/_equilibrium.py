# -*- coding: utf-8 -*-

try:
    import numpy as np
except ImportError:
    np = None

from .chemistry import equilibrium_quotient


def equilibrium_residual(rc, c0, stoich, K, activity_product=None):
    """
    Parameters
    ---------
    rc: float
        Reaction coordinate
    c0: array_like of reals
        concentrations
    stoich: tuple
        per specie stoichiometry coefficient
    K: float
        equilibrium constant
    activity_product: callable
        callback for calculating the activity product taking
        concentration as single parameter.
    """
    if not hasattr(stoich, "ndim") or stoich.ndim == 1:
        c = c0 + stoich * rc
    else:
        c = c0 + np.dot(stoich, rc)
    Q = equilibrium_quotient(c, stoich)
    if activity_product is not None:
        Q *= activity_product(c)
    return K - Q


def _get_rc_interval(stoich, c0):
    """get reaction coordinate interval"""
    limits = c0 / stoich
    if np.any(limits < 0):
        upper = -np.max(limits[np.argwhere(limits < 0)])
    else:
        upper = 0

    if np.any(limits > 0):
        lower = -np.min(limits[np.argwhere(limits > 0)])
    else:
        lower = 0

    if lower == 0 and upper == 0:
        raise ValueError("0-interval")
    else:
        return lower, upper


def _solve_equilibrium_coord(c0, stoich, K, activity_product=None):
    from scipy.optimize import brentq

    (mask,) = np.nonzero(stoich)
    stoich_m = stoich[mask]
    c0_m = c0[mask]
    lower, upper = _get_rc_interval(stoich_m, c0_m)
    # span = upper - lower
    return brentq(
        equilibrium_residual,
        lower,  # + delta_frac*span,
        upper,  # - delta_frac*span,
        (c0_m, stoich_m, K, activity_product),
    )


def solve_equilibrium(c0, stoich, K, activity_product=None):
    """
    Solve equilibrium concentrations by using scipy.optimize.brentq

    Parameters
    ----------
    c0: array_like
        Initial guess of equilibrium concentrations
    stoich: tuple
        per specie stoichiometry coefficient (law of mass action)
    K: float
        equilibrium constant
    activity_product: callable
        see ``equilibrium_residual``
    delta_frac: float
        to avoid division by zero the span of searched values for
        the reactions coordinate (rc) is shrunk by 2*delta_frac*span(rc)
    """
    stoich = np.array(stoich)
    c0 = np.array(c0)
    rc = _solve_equilibrium_coord(c0, stoich, K, activity_product)
    return c0 + rc * stoich
