# -*- coding: utf-8 -*-

import math

from ..util.pyutil import deprecated
from ..util._expr import Expr


class MassActionEq(Expr):

    argument_names = ("equilibrium_constant",)

    def active_conc_prod(self, variables, backend=math, equilibrium=None):
        result = None
        for exp_factor, stoichs in [(1, equilibrium.prod), (-1, equilibrium.reac)]:
            for k, v in stoichs.items():
                if result is None:
                    result = variables[k] ** (exp_factor * v)
                else:
                    result *= variables[k] ** (exp_factor * v)
        return result

    def eq_const(self, variables, backend=math, **kwargs):
        (eq_c,) = self.all_args(variables, backend=backend, **kwargs)
        return eq_c

    def __call__(self, *args, **kwargs):
        return self.eq_const(*args, **kwargs)

    def equilibrium_equation(self, variables, backend=math, equilibrium=None, **kwargs):
        return self.eq_const(
            variables, backend=backend, **kwargs
        ) - self.active_conc_prod(
            variables, backend=backend, equilibrium=equilibrium, **kwargs
        )

    @classmethod
    def from_callback(cls, callback, attr="eq_const", **kwargs):
        return super(MassActionEq, cls).from_callback(callback, attr=attr, **kwargs)


@deprecated(use_instead=MassActionEq)
class EqExpr(Expr):
    """Baseclass for equilibrium expressions"""

    kw = {"eq": None, "ref": None}


class GibbsEqConst(MassActionEq):
    argument_names = ("dH_over_R", "dS_over_R")
    parameter_keys = ("temperature",)

    def eq_const(self, variables, backend=math, **kwargs):
        dH_over_R, dS_over_R = self.all_args(variables, backend=backend)
        (T,) = self.all_params(variables, backend=backend)
        return backend.exp(dS_over_R - dH_over_R / T)
