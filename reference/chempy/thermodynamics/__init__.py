# -*- coding: utf-8 -*-

from .expressions import MassActionEq, GibbsEqConst
