import warnings
from .._util import _any


A, B, C = 1.1709, 0.001827, 89.93
eta20_cP = 1.0020


def water_viscosity(T=None, eta20=None, units=None, warn=True):
    """Viscosity of water (cP) as function of temperature (K)

    Parameters
    ----------
    T : float
        Temperature (in Kelvin) (default: 298.15 K)
    eta20 : float
        Viscosity of water at 20 degree Celsius.
    units : object (optional)
        object with attributes: kelvin & centipoise
    warn : bool
        Emit UserWarning when outside temperature range.

    Returns
    -------
    Water viscosity at temperature ``T``.

    """
    if units is None:
        cP = 1
        K = 1
    else:
        cP = units.centipoise
        K = units.kelvin
    if T is None:
        T = 298.15 * K
    if eta20 is None:
        eta20 = eta20_cP * cP
    t = T - 273.15 * K
    if warn and (_any(t < 0 * K) or _any(t > 100 * K)):
        warnings.warn("Temperature is outside range (0-100 degC)")
    if units is not None:
        # the correlation is in terms of the (dimensionless) number of degrees Celsius
        t = (t / K).simplified.magnitude
    # equation (5) in the paper says "log" but they seem to mean "log10"
    # when comparing with Table II.
    return eta20 * 10 ** ((A * (20 - t) - B * (t - 20) ** 2) / (t + C))


reference = dict(
    doi="10.1021/j100721a006",
    url="https://doi.org/10.1021/j100721a006",
    year=1969,
    month="jan",
    publisher="American Chemical Society ({ACS})",
    volume=73,
    number=1,
    pages=(34, 39),
    author="Lawrence Korson and Walter Drost-Hansen and Frank J. Millero",
    title="Viscosity of water at various temperatures",
    journal="The Journal of Physical Chemistry",
)
