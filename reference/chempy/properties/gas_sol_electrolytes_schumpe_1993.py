# -*- coding: utf-8 -*-
"""
This module implements an expression for estimating how gas solubility in water
is affected by dissolved non-reactive salts, the expression and parameters are from Schumpe (1993).
"""

import warnings

Tref_K = 298.2  # Kelvin

p_ion_rM = {  # "rM" === "per molar"
    "H+": 0.0,
    "Li+": 0.0691,
    "Na+": 0.1171,
    "K+": 0.0959,
    "Rb+": 0.0845,
    "Cs+": 0.0660,
    "NH4+": 0.0539,
    "Mg+2": 0.1765,
    "Ca+2": 0.1771,
    "Ba+2": 0.2021,
    "Fe+2": 0.1712,
    "Co+2": 0.1983,
    "Ni+2": 0.2039,
    "Cu+2": 0.1810,
    "Mn+2": 0.1620,
    "Zn+2": 0.1712,
    "Cd+2": 0.2201,
    "Al+3": 0.2253,
    "Fe+3": 0.0996,
    "Cr+3": 0.0595,
    "OH-": 0.0756,
    "F-": 0.1016,
    "Cl-": 0.0334,
    "Br-": 0.0137,
    "I-": 0.0020,
    "NO3-": 0.0050,
    "ClO4-": 0.0502,
    "IO4-": 0.1514,
    "HCO3-": 0.1372,
    "HSO3-": 0.0543,
    "H2PO4-": 0.1025,
    # '0-O-': 0.0765,
    # '0-OCH2COO-': 0.0119,
    "S2O3-2": 0.1109,
    "HPO4-2": 0.1789,
    "CO3-2": 0.1666,
    "SO3-2": 0.1537,
    "SO4-2": 0.1185,
    "PO4-3": 0.2117,
}

p_gas_rM = {
    "O2": 0.0,
    "CO2": -0.0183,
    "N2O": -0.0110,
    "C2H2": -0.0174,
    "C2H4": 0.0014,
    "He": -0.036,
    "Ne": -0.020,
    "Ar": -0.009,
    "Kr": 0.003,
    "Xe": 0.005,
    "Rn": 0.015,
    "H2": -0.024,
    "N2": -0.008,
    "NO": 0.004,
    "C2H6": 0.011,
}


def lg_solubility_ratio(electrolytes, gas, units=None, warn=True):
    """Returns the log10 value of the solubilty ratio

    Implements equation 16, p 156. from Schumpe (1993)

    Parameters
    ----------
    electrolytes : dict
        Mapping substance key (one in ``p_ion_rM``) to concentration.
    gas : str
        Substance key for the gas (one in ``p_gas_rM``).
    units : object (optional)
        object with attribute: molar
    warn : bool (default: True)
        Emit UserWarning when 'F-' among electrolytes.

    """
    if units is None:
        M = 1
    else:
        M = units.molar
    if warn and "F-" in electrolytes:
        warnings.warn("In Schumpe 1993: data for fluoride uncertain.")
    return sum(
        [(p_gas_rM[gas] / M + p_ion_rM[k] / M) * v for k, v in electrolytes.items()]
    )


reference = dict(
    doi="10.1016/0009-2509(93)80291-W",
    url="http://www.sciencedirect.com/science/article/pii/000925099380291W",
    year=1993,
    publisher="Pergamon",
    author="Schumpe, Adrian",
    title="The estimation of gas solubilities in salt solutions",
    volume=48,
    issn="0009-2509",
    abstract=(
        "The effects of dissolved salts on the solubilities of gases were analysed based on "
        "a comprehensive set of literature data for the temperature of 298.2 K. A new "
        "empirical model was suggested which, at no increase in the number of adjustable "
        "parameters, described the data with a lower standard deviation than previously "
        "suggested models. The parameter values evaluated for the new model allow to "
        "estimate the effects of 20 cations and 19 anions on the solubilities of 15 gases."
    ),
    pages=(153, 158),
    number=1,
    journaltitle="Chemical Engineering Science",
    shortjournal="Chemical Engineering Science",
)
