# -*- coding: utf-8 -*-


import warnings

from .._util import _any, get_backend


def water_permittivity(
    T=None, P=None, units=None, U=None, just_return_U=False, warn=True, backend=None
):
    """
    Relative permittivity of water as function of temperature (K)
    and pressure (bar).

    Parameters
    ----------
    T : float
        Temperature (default: 298.15 Kelvin)
    P : float
        Pressure (default: 1 bar)
    units : object (optional)
        object with attributes: Kelvin, bar
    U : array_like (optional)
        9 parameters to the equation.
    just_return_U : bool (optional, default: False)
        Do not compute relative permittivity, just return the parameters ``U``.
    warn : bool (default: True)
        Emit UserWarning when outside temperature/pressure range.
    backend : module (default: None)
        modules which contains "exp", default: numpy, math

    Returns
    -------
    Relative permittivity of water (dielectric constant)

    References
    ----------
    Bradley, D.J.; Pitzer, K.S. `Thermodynamics of electrolytes. 12. Dielectric
        properties of water and Debye--Hueckel parameters to 350/sup
        0/C and 1 kbar`, J. Phys. Chem.; Journal Volume 83 (12)
        (1979), pp. 1599-1603,
        http://pubs.acs.org/doi/abs/10.1021/j100475a009
        DOI: 10.1021/j100475a009
    """
    be = get_backend(backend)
    if units is None:
        K = 1
        bar = 1
    else:
        K = units.kelvin
        bar = units.bar
    if T is None:
        T = 298.15 * K
    if P is None:
        P = 1 * bar
    if U is None:
        U = (
            3.4279e2,
            -5.0866e-3 / K,
            9.4690e-7 / K ** 2,
            -2.0525,
            3.1159e3 * K,
            -1.8289e2 * K,
            -8.0325e3 * bar,
            4.2142e6 * K * bar,
            2.1417 / K * bar,
        )
    if just_return_U:
        return U
    T0 = 273.15 * K
    if warn:
        if _any(T < T0) or _any(T > T0 + 350 * K):
            warnings.warn("Outside temperature range (0-350 degC)")
        else:
            if _any(T > T0 + 70 * K):
                if _any(P > 2000 * bar):
                    warnings.warn("Outside pressure range (2000 bar)")
                else:
                    if _any(P > 5000 * bar):
                        warnings.warn("Outside pressure range (5000 bar)")
    B = U[6] + U[7] / T + U[8] * T
    C = U[3] + U[4] / (U[5] + T)
    eps1000 = U[0] * be.exp(U[1] * T + U[2] * T ** 2)
    return eps1000 + C * be.log((B + P) / (B + 1000.0 * bar))


# bibtex format (generated at doi2bib.org):
reference = {
    "doi": "10.1021/j100475a009",
    "url": "http://dx.doi.org/10.1021/j100475a009",
    "year ": 1979,
    "month": "jun",
    "publisher": "American Chemical Society ({ACS})",
    "volume": 83,
    "number": 12,
    "pages": (1599, 1603),
    "author": "Daniel J. Bradley and Kenneth S. Pitzer",
    "title": (
        "Thermodynamics of electrolytes. 12. Dielectric properties of"
        " water and Debye-Hueckel parameters to 350 C and 1 kbar"
    ),
    "journal": "J. Phys. Chem.",
}
