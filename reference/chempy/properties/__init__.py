# -*- coding: utf-8 -*-
"""
This package implements various parameterisations of properties from the
literature with relevance in chemistry.
"""
