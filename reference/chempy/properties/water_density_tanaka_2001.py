# -*- coding: utf-8 -*-

import warnings

try:
    from numpy import any as _any
except ImportError:

    def _any(arg):
        if arg is True:
            return True
        if arg is False:
            return False
        return any(arg)


def water_density(T=None, T0=None, units=None, a=None, just_return_a=False, warn=True):
    """
    Density of water (kg/m3) as function of temperature (K)
    according to VSMOW model between 0 and 40 degree Celsius.
    Fitted using Thiesen's equation.

    Parameters
    ----------
    T : float
        Temperature (in Kelvin) (default: 298.15).
    T0 : float
        Value of T for 0 degree Celsius (default: 273.15).
    units : object (optional)
        Object with attributes: Kelvin, meter, kilogram.
    a : array_like (optional)
        5 parameters to the equation.
    just_return_a : bool (optional, default: False)
        Do not compute rho, just return the parameters ``a``.
    warn : bool (default: True)
        Emit UserWarning when outside temperature range.

    Returns
    -------
    Density of water (float of kg/m3 if T is float and units is None)

    Examples
    --------
    >>> print('%.2f' % water_density(277.13))
    999.97

    References
    ----------
    TANAKA M., GIRARD G., DAVIS R., PEUTO A. and BIGNELL N.,
        "Recommended table for the density of water between 0 °C and 40 °C
        based on recent experimental reports",
        Metrologia, 2001, 38, 301-309.
        http://iopscience.iop.org/article/10.1088/0026-1394/38/4/3
        doi:10.1088/0026-1394/38/4/3
    """
    if units is None:
        K = 1
        m = 1
        kg = 1
    else:
        K = units.Kelvin
        m = units.meter
        kg = units.kilogram
    if T is None:
        T = 298.15 * K
    m3 = m ** 3
    if a is None:
        a = (
            -3.983035 * K,  # C
            301.797 * K,  # C
            522528.9 * K * K,  # C**2
            69.34881 * K,  # C
            999.974950 * kg / m3,
        )
    if just_return_a:
        return a
    if T0 is None:
        T0 = 273.15 * K
    t = T - T0
    if warn and (_any(t < 0 * K) or _any(t > 40 * K)):
        warnings.warn("Temperature is outside range (0-40 degC)")
    return a[4] * (1 - ((t + a[0]) ** 2 * (t + a[1])) / (a[2] * (t + a[3])))


# bibtex format (generated at doi2bib.org):
reference = {
    "doi": "10.1088/0026-1394/38/4/3",
    "url": "http://dx.doi.org/10.1088/0026-1394/38/4/3",
    "year ": 2001,
    "month": "aug",
    "publisher": "{IOP} Publishing",
    "volume": 38,
    "number": 4,
    "pages": (301, 309),
    "author": "M Tanaka and G Girard and R Davis and A Peuto and N Bignell",
    "title": "Recommended table for the density of water between 0 ~C and 40 ~C based on recent experimental reports",
    "journal": "Metrologia",
}
