# -*- coding: utf-8 -*-

import warnings

try:
    from numpy import any as _any
except ImportError:

    def _any(arg):
        if arg is True:
            return True
        if arg is False:
            return False
        return any(arg)


# Parameters from paper (SI-units):

gamma = 2.063
dgamma = 0.051
D0 = 1.635e-8
TS = 215.05
dD0 = 2.242e-11
dTS = 1.2
low_t_bound = 273.15  # 0 deg C, (m.p. at ambient pressure)
high_t_bound = 373.15  # 100 deg C, (b.p. at ambient pressure)


def water_self_diffusion_coefficient(T=None, units=None, warn=True, err_mult=None):
    """
    Temperature-dependent self-diffusion coefficient of water.

    Parameters
    ----------
    T : float
        Temperature (default: in Kelvin)
    units : object (optional)
        object with attributes: Kelvin, meter, kilogram
    warn : bool (default: True)
        Emit UserWarning when outside temperature range.
    err_mult : length 2 array_like (default: None)
        Perturb parameters D0 and TS with err_mult[0]*dD0 and
        err_mult[1]*dTS respectively, where dD0 and dTS are the
        reported uncertainties in the fitted parameters. Useful
        for estimating error in diffusion coefficient.

    References
    ----------
    Temperature-dependent self-diffusion coefficients of water and six selected
        molecular liquids for calibration in accurate 1H NMR PFG measurements
        Manfred Holz, Stefan R. Heila, Antonio Saccob;
        Phys. Chem. Chem. Phys., 2000,2, 4740-4742
        http://pubs.rsc.org/en/Content/ArticleLanding/2000/CP/b005319h
        DOI: 10.1039/B005319H
    """
    if units is None:
        K = 1
        m = 1
        s = 1
    else:
        K = units.Kelvin
        m = units.meter
        s = units.second
    if T is None:
        T = 298.15 * K
    _D0 = D0 * m ** 2 * s ** -1
    _TS = TS * K
    if err_mult is not None:
        _dD0 = dD0 * m ** 2 * s ** -1
        _dTS = dTS * K
        _D0 += err_mult[0] * _dD0
        _TS += err_mult[1] * _dTS
    if warn and (_any(T < low_t_bound * K) or _any(T > high_t_bound * K)):
        warnings.warn("Temperature is outside range (0-100 degC)")
    return _D0 * ((T / _TS) - 1) ** gamma


# bibtex format (generated at doi2bib.org):
reference = {
    "doi": "10.1039/b005319h",
    "url": "http://dx.doi.org/10.1039/B005319H",
    "year ": 2000,
    "publisher": "Royal Society of Chemistry ({RSC})",
    "volume": 2,
    "number": 20,
    "pages": (4740, 4742),
    "author": "Manfred Holz and Stefan R. Heil and Antonio Sacco",
    "title": (
        "Temperature-dependent self-diffusion coefficients of water and"
        " six selected molecular liquids for calibration in accurate 1H"
        " {NMR} {PFG} measurements"
    ),
    "journal": "Phys. Chem. Chem. Phys.",
}
