# -*- coding: utf-8 -*-


# From Kielland, Individual Activity Coefficients of Ions in Aqueous Solutions, Vol. 59, 1937, 1675-1678
_radii_nm = {  # in nanometer, from Table I, Page 1676
    "H+": 0.9,
    "Li+": 0.6,
    "Na+": 0.425,
    "K+": 0.3,
    "Rb+": 0.25,
    "Cs+": 0.25,
    "NH4+": 0.25,
    "Tl+": 0.25,
    "Ag+": 0.25,
    "Be+2": 0.8,
    "Mg+2": 0.8,
    "Ca+2": 0.6,
    "Sr+2": 0.5,
    "Ba+2": 0.5,
    "Ra+2": 0.5,
    "Cu+2": 0.6,
    "Zn+2": 0.6,
    "Cd+2": 0.5,
    "Hg+2": 0.5,
    "Pb+2": 0.45,
    "Mn+2": 0.6,
    "Fe+2": 0.6,
    "Ni+2": 0.6,
    "Co+2": 0.6,
    "Sn+2": 0.6,
    "Al+3": 0.9,
    "Fe+3": 0.9,
    "Cr+3": 0.9,
    "La+3": 0.9,
    "Ce+3": 0.9,
    "Pr+3": 0.9,
    "Nd+3": 0.9,
    "Sc+3": 0.9,
    "Sm+3": 0.9,
    "Y+3": 0.9,
    "In+3": 0.9,
    "Sn+4": 1.1,
    "Th+4": 1.1,
    "Zr+4": 1.1,
    "Ce+4": 1.1,
    "F-": 0.35,
    "Cl-": 0.3,
    "Br-": 0.3,
    "I-": 0.3,
    "ClO3-": 0.35,
    "ClO4-": 0.35,
    "NO3-": 0.3,
    "BrO3-": 0.35,
    "IO3-": 0.425,
    "HCO3-": 0.425,
    "S-2": 0.5,
    "CO3-2": 0.45,
    "SO4-2": 0.4,
    "C2O4-2": 0.45,
    "SCN-": 0.35,
    "OH-": 0.35,
}


def get_radii(key, units=None):
    """Get Debye-Hückel radii for various ions

    For aqueous systems

    Parameters
    ----------
    key: str
        e.g. 'Fe+3', 'SCN-'
    units: object (optional)
        :attr:`nm` is accessed.

    Returns
    -------
    radius in nanometers

    """
    if units is None:
        return _radii_nm[key]
    else:
        return _radii_nm[key] * units.nm
