# -*- coding: utf-8 -*-
"""
This module implements the density parameterisation of aqueous sulfuric acid
of Myhre et al. from 1998.
"""

import numpy as np
import warnings

from ..util import NoConvergence


_data = np.array(
    [
        [999.8426, 0.03345402, -0.005691304, 0, 0],
        [547.2659, -5.300445, 0.01187671, 0.0005990008, 0],
        [5262.95, 37.20445, 0.1201909, -0.004148594, 1.197973e-5],
        [-62139.58, -287.767, -0.4064638, 0.01119488, 3.607768e-5],
        [409029.3, 1270.854, 0.326971, -0.01377435, -2.633585e-5],
        [-1596989, -3062.836, 0.1366499, 0.006373031, 0],
        [3857411, 4083.714, -0.1927785, 0, 0],
        [-5808064, -2844.401, 0, 0, 0],
        [5301976, 809.1053, 0, 0, 0],
        [-2682616, 0, 0, 0, 0],
        [576428.8, 0, 0, 0, 0],
    ]
)


def sulfuric_acid_density(w, T=None, T0=None, units=None, warn=True):
    """
    Density of sulfuric acid (kg/m³) as function of temperature (K)
    and mass fraction acid (w).

    Parameters
    ----------
    w: float
        Acid mass fraction (0.1 <= w <= 0.9)
    T: float
        Temperature (in Kelvin) (273 <= T <= 323) (default: 298.15)
    T0: float
        Value of T for 0 degree Celsius (default: 273.15)
    units: object (optional)
        object with attributes: kelvin, meter, kilogram
    warn: bool (default: True)
        Emit UserWarning when outside T or w range.

    Returns
    -------
    Density of sulfuric acid (float of kg/m³ if T is float and units is None)

    Examples
    --------
    >>> print('%d' % sulfuric_acid_density(.5, 293))
    1396

    References
    ----------
    Cathrine E. L. Myhre , Claus J. Nielsen ,* and Ole W. Saastad
        "Density and Surface Tension of Aqueous H2SO4 at Low Temperature"
        J. Chem. Eng. Data, 1998, 43 (4), pp 617–622
        http://pubs.acs.org/doi/abs/10.1021/je980013g
        DOI: 10.1021/je980013g
    """
    if units is None:
        K = 1
        m = 1
        kg = 1
    else:
        K = units.Kelvin
        m = units.meter
        kg = units.kilogram
    if T is None:
        T = 298.15 * K
    m3 = m ** 3
    if T0 is None:
        T0 = 273.15 * K
    t = T - T0
    if warn:
        if np.any(t < 0 * K) or np.any(t > 50 * K):
            warnings.warn("Temperature is outside range (0-50 degC)")
        if np.any(w < 0.1) or np.any(w > 0.9):
            warnings.warn("Mass fraction is outside range (0.1-0.9)")
    t_degC = t / K
    if units is not None:
        t_degC = t_degC.simplified  # e.g. mK/K is a pure number only after rescaling
    t_arr = np.array([float(t_degC) ** j for j in range(5)]).reshape((1, 5))
    w_arr = np.array([w ** i for i in range(11)]).reshape((11, 1))
    return np.sum((t_arr * w_arr) * _data) * kg / m3  # Equation (2) in reference


# bibtex format (generated at doi2bib.org):
reference = {
    "doi": "10.1021/je980013g",
    "url": "http://dx.doi.org/10.1021/je980013g",
    "year ": 1998,
    "month": "jul",
    "publisher": "American Chemical Society ({ACS})",
    "volume": 43,
    "number": 4,
    "pages": (617, 622),
    "author": "Cathrine E. L. Myhre and Claus J. Nielsen and Ole W. Saastad",
    "title": "Density and Surface Tension of Aqueous H2{SO}4 at Low Temperature",
    "journal": r"Journal of Chemical {\&} Engineering Data",
}


def density_from_concentration(
    conc,
    T=None,
    molar_mass=None,
    rho_cb=sulfuric_acid_density,
    units=None,
    atol=None,
    maxiter=10,
    warn=False,
    **kwargs
):
    """Calculates the density of a solution from its concentration

    Given a function which calculates the density of a solution from the mass
    fraction of the solute, this function calculates (iteratively) the density
    of said solution for a given concentration.

    Parameters
    ----------
    conc : float (optionally with units)
        Concentration (mol / m³).
    T : float (optionally with units)
        Passed to ``rho_cb``.
    molar_mass : float (optionally with units)
        Molar mass of solute.
    rho_cb : callback
        Callback with signature f(w, T, units=None) -> rho
        (default: :func:`sulfuric_acid_density`).
    units : object (optional)
        Object with attributes: meter, kilogram, mol.
    atol : float (optionally with units)
        Convergence criterion for fixed-point iteration
        (default: 1e-3 kg/m³).
    maxiter : int
        Maximum number of iterations (when exceeded a NoConvergence exception
        is raised).
    \\*\\*kwargs:
        Keyword arguments passed onto ``rho_cb``.

    Returns
    -------
    Density of sulfuric acid (float of kg/m³ if T is float and units is None)

    Examples
    --------
    >>> print('%d' % density_from_concentration(400, 293))
    1021

    Raises
    ------
    chempy.util.NoConvergence:
        When maxiter is exceeded

    """
    if units is None:
        m = 1
        kg = 1
        mol = 1
    else:
        m = units.meter
        kg = units.kilogram
        mol = units.mol
    kg_per_m3 = kg * m ** -3
    if atol is None:
        atol = 1e-3 * kg_per_m3
    if molar_mass is None:
        molar_mass = (1.00794 * 2 + 32.066 + 4 * 15.9994) * 1e-3 * kg / mol

    if units is not None:
        conc = conc.rescale(mol / m ** 3)
        molar_mass = molar_mass.rescale(kg / mol)

    rho = 1100 * kg_per_m3
    delta_rho = float("inf") * kg_per_m3

    iter_idx = 0
    while atol < abs(delta_rho):
        # fixed point iteration
        new_rho = rho_cb(conc * molar_mass / rho, T, units=units, warn=warn, **kwargs)
        delta_rho = new_rho - rho
        rho = new_rho
        iter_idx += 1
        if iter_idx > maxiter:
            raise NoConvergence("maxiter exceeded")
    return rho
