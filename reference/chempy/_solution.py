# -*- coding: utf-8 -*-
"""
"Sandbox" module for exploring API useful for digital labbooks.

Examples
--------
>>> from chempy.units import to_unitless, default_units as u
>>> s1 = Solution(0.1*u.dm3, {'CH3OH': 0.1 * u.molar})
>>> s2 = Solution(0.3*u.dm3, {'CH3OH': 0.4 * u.molar, 'Na+': 2e-3*u.molar, 'Cl-': 2e-3*u.molar})
>>> s3 = s1 + s2
>>> abs(to_unitless(s3.volume - 4e-4 * u.m**3, u.dm3)) < 1e-15
True
>>> s3.concentrations.isclose({'CH3OH': 0.325*u.molar, 'Na+': 1.5e-3*u.molar, 'Cl-': 1.5e-3*u.molar})
True
>>> s4 = s3.dissolve({'CH3OH': 1*u.gram})
>>> abs(s4.concentrations['CH3OH'] - (0.325 + 1/(12.011 + 4*1.008 + 15.999)/.4)*u.molar) < 1e-4
True

"""

import copy

from .chemistry import Substance
from .units import (
    get_derived_unit,
    html_of_unit,
    is_unitless,
    SI_base_registry,
    to_unitless,
    rescale,
    default_units as u,
)
from .util.arithmeticdict import ArithmeticDict, _imul, _itruediv
from .printing import as_per_substance_html_table


class QuantityDict(ArithmeticDict):
    def __init__(self, units, *args, **kwargs):
        self.units = units
        super(QuantityDict, self).__init__(lambda: 0 * self.units, *args, **kwargs)
        self._check()

    @classmethod
    def of_quantity(cls, quantity_name, *args, **kwargs):
        instance = cls(
            get_derived_unit(SI_base_registry, quantity_name), *args, **kwargs
        )
        instance.quantity_name = quantity_name
        return instance

    def rescale(self, new_units):
        return self.__class__(
            new_units, {k: rescale(v, new_units) for k, v in self.items()}
        )

    def _repr_html_(self):
        if hasattr(self, "quantity_name"):
            header = self.quantity_name.capitalize() + " / "
        else:
            header = ""
        header += html_of_unit(self.units)
        tab = as_per_substance_html_table(to_unitless(self, self.units), header=header)
        return tab._repr_html_()

    def _check(self):
        for k, v in self.items():
            if not is_unitless(v / self.units):
                raise ValueError(
                    "entry for %s (%s) is not compatible with %s" % (k, v, self.units)
                )

    def __setitem__(self, key, value):
        if not is_unitless(value / self.units):
            raise ValueError(
                "entry for %s (%s) is not compatible with %s" % (key, value, self.units)
            )
        super(QuantityDict, self).__setitem__(key, value)

    def copy(self):
        return self.__class__(self.units, copy.deepcopy(list(self.items())))

    def __repr__(self):
        return "{}({}, {})".format(
            self.__class__.__name__, repr(self.units), dict(self)
        )

    def __mul__(self, other):
        d = dict(copy.deepcopy(list(self.items())))
        _imul(d, other)
        return self.__class__(self.units * getattr(other, "units", 1), d)

    def __truediv__(self, other):
        d = dict(copy.deepcopy(list(self.items())))
        _itruediv(d, other)
        return self.__class__(self.units / getattr(other, "units", 1), d)

    def __floordiv__(self, other):
        a = self.copy()
        if getattr(other, "units", 1) != 1:
            raise ValueError("Floor division with quantities not defined")
        a //= other
        return a

    def __rtruediv__(self, other):
        """other / self"""
        return self.__class__(
            getattr(other, "units", 1) / self.units,
            {k: other / v for k, v in self.items()},
        )

    def __rfloordiv__(self, other):
        """other // self"""
        return self.__class__(
            getattr(other, "units", 1) / self.units,
            {k: other // v for k, v in self.items()},
        )


class AutoRegisteringSubstanceDict(object):
    def __init__(self, factory=Substance.from_formula):
        self.factory = factory
        self._store = {}

    def __getitem__(self, key):
        if key not in self._store:
            self._store[key] = self.factory(key)
        return self._store[key]


class Solution(object):
    def __init__(self, volume, concentrations, substances=None, solvent=None):
        if not is_unitless(volume / u.dm3):
            raise ValueError("volume need to have a unit (e.g. dm3)")
        self.volume = volume
        self.concentrations = QuantityDict(u.molar, concentrations)
        if substances is None:
            substances = AutoRegisteringSubstanceDict()
        self.substances = substances
        self.solvent = solvent

    def __eq__(self, other):
        if not isinstance(other, Solution):
            return NotImplemented
        return all(
            [
                getattr(self, k) == getattr(other, k)
                for k in "volume concentrations substances solvent".split()
            ]
        )

    def __add__(self, other):
        if self.solvent != other.solvent:
            raise NotImplementedError(
                "Mixed solvent should be represented as concentrations"
            )
        tot_amount = (
            self.concentrations * self.volume + other.concentrations * other.volume
        )
        tot_vol = self.volume + other.volume
        return Solution(tot_vol, tot_amount / tot_vol, self.substances, self.solvent)

    def dissolve(self, masses):
        contrib = QuantityDict(
            u.molar,
            {
                k: v / self.substances[k].molar_mass() / self.volume
                for k, v in masses.items()
            },
        )
        return Solution(
            self.volume, self.concentrations + contrib, self.substances, self.solvent
        )

    def withdraw(self, volume):
        if volume > self.volume:
            raise ValueError(
                "Cannot withdraw a volume greater than the solution volume"
            )
        if volume < volume * 0:
            raise ValueError("Cannot withdraw a negative volume")
        self.volume -= volume
        return Solution(volume, self.concentrations, self.substances, self.solvent)
