# -*- coding: utf-8 -*-


def electrical_mobility_from_D(D, charge, T, constants=None, units=None):
    """
    Calculates the electrical mobility through Einstein-Smoluchowski relation.

    Parameters
    ----------
    D: float with unit
        Diffusion coefficient
    charge: integer
        charge of the species
    T: float with unit
        Absolute temperature
    constants: object (optional, default: None)
        if None:
            T assumed to be in Kelvin and b0 = 1 mol/kg
        else:
            see source code for what attributes are used.
            Tip: pass quantities.constants
    units: object (optional, default: None)
        attributes accessed: meter, Kelvin and mol

    Returns
    -------
    Electrical mobility

    """

    if constants is None:
        kB = 1.38064852e-23
        e = 1.60217662e-19
        if units is not None:
            kB *= units.joule / units.kelvin
            e *= units.coulomb
    else:
        kB = constants.Boltzmann_constant
        e = constants.elementary_charge
    return D * charge * e / (kB * T)
