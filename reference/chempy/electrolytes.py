# -*- coding: utf-8 -*-
"""
This modules collects expressions related to ionic strength, e.g. the Debye-Hückel expressions.
"""

from collections import OrderedDict
import warnings

from ._util import get_backend
from .chemistry import Substance
from .units import allclose

integer_one = 1


def _get_b0(b0, units=None):
    if units is not None and b0 is integer_one:
        return b0 * units.molal
    else:
        return b0


def ionic_strength(
    molalities,
    charges=None,
    units=None,
    substances=None,
    substance_factory=Substance.from_formula,
    warn=True,
):
    """Calculates the ionic strength

    Parameters
    ----------
    molalities: array_like or dict
        Optionally with unit (amount / mass).
        when dict: mapping substance key to molality.
    charges: array_like
        Charge of respective ion, taken for substances when None.
    units: object (optional, default: None)
        Attributes accessed: molal.
    substances: dict, optional
        Mapping of substance keys to Substance instances (used when molalities
        is a dict).
    substance_factory: callback
        Used if `substances` is a string.
    warn: bool
        Issue a warning if molalities violates net charge neutrality.

    Examples
    --------
    >>> ionic_strength([1e-3, 3e-3], [3, -1]) == .5 * (9 + 3) * 1e-3
    True
    >>> ionic_strength({'Mg+2': 6, 'PO4-3': 4})
    30.0

    """
    tot = None
    if charges is None:
        if substances is None:
            substances = " ".join(molalities.keys())
        if isinstance(substances, str):
            substances = OrderedDict(
                [(k, substance_factory(k)) for k in substances.split()]
            )
        charges, molalities = zip(
            *[(substances[k].charge, v) for k, v in molalities.items()]
        )
    if len(molalities) != len(charges):
        raise ValueError("molalities and charges of different lengths")
    for b, z in zip(molalities, charges):
        if tot is None:
            tot = b * z ** 2
        else:
            tot += b * z ** 2
    if warn:
        net = None
        for b, z in zip(molalities, charges):
            if net is None:
                net = b * z
            else:
                net += b * z
        if not allclose(net, tot * 0, atol=tot * 1e-14):
            warnings.warn("Molalities not charge neutral: %s" % str(net))
    return tot / 2


class _ActivityProductBase(object):
    """Baseclass for activity products"""

    def __init__(self, stoich, *args):
        self.stoich = stoich
        self.args = args

    def __call__(self, c):
        pass


def A(eps_r, T, rho, b0=1, constants=None, units=None, backend=None):
    """
    Debye Huckel constant A

    Parameters
    ----------
    eps_r: float
        relative permittivity
    T: float with unit
        Temperature (default: assume Kelvin)
    rho: float with unit
        density (default: assume kg/m**3)
    b0: float, optional
        Reference molality, optionally with unit (amount / mass)
        IUPAC defines it as 1 mol/kg. (default: 1).
    units: object (optional, default: None)
        attributes accessed: meter, Kelvin and mol
    constants: object (optional, default: None)
        if None:
            T assumed to be in Kelvin and b0 = 1 mol/kg
        else:
            see source code for what attributes are used.
            Tip: pass quantities.constants

    Notes
    -----
    Remember to divide by ln(10) if you want to use the constant
    with log10 based expression.

    References
    ----------
    Atkins, De Paula, Physical Chemistry, 8th edition

    """
    b0 = _get_b0(b0, units)
    be = get_backend(backend)
    one = be.pi ** 0
    if constants is None:
        combined = 132871.85866393594
        if units is not None:
            m = units.meter
            K = units.Kelvin
            mol = units.mol
            combined *= (m * K) ** (3 * one / 2) / mol ** (one / 2)
        return combined * (rho * b0 * T ** -3 * eps_r ** -3) ** 0.5
    F = constants.Faraday_constant
    NA = constants.Avogadro_constant
    eps0 = constants.vacuum_permittivity
    kB = constants.Boltzmann_constant
    pi = constants.pi
    A = (
        F ** 3
        / (4 * pi * NA)
        * (rho * b0 / (2 * (eps0 * eps_r * kB * NA * T) ** 3)) ** (one / 2)
    )
    return A


def B(eps_r, T, rho, b0=1, constants=None, units=None, backend=None):
    """
    Extended Debye-Huckel parameter B

    Parameters
    ----------
    eps_r: float
        relative permittivity
    T: float with unit
        temperature
    rho: float with unit
        density
    b0: float with unit
        reference molality
    units: object (optional, default: None)
        attributes accessed: meter, Kelvin and mol
    constants: object (optional, default: None)
        if None:
            T assumed to be in Kelvin, rho in kg/m**3 and b0 = 1 mol/kg
        else:
            attributes accessed: molar_gas_constant, Faraday_constant
            Tip: pass quantities.constants

    Returns
    -------
    Debye Huckel B constant (default in m**-1)

    """
    b0 = _get_b0(b0, units)
    be = get_backend(backend)
    one = be.pi ** 0
    if constants is None:
        combined = 15903203868.740343
        if units is not None:
            m = units.meter
            K = units.Kelvin
            mol = units.mol
            combined *= (m * K / mol) ** (one / 2)
        return combined * (rho * b0 / (T * eps_r)) ** 0.5
    F = constants.Faraday_constant
    eps0 = constants.vacuum_permittivity
    R = constants.molar_gas_constant
    B = F * (2 * rho * b0 / (eps_r * eps0 * R * T)) ** (one / 2)
    return B


def limiting_log_gamma(IS, z, A, I0=1, backend=None):
    """Debye-Hyckel limiting formula"""
    be = get_backend(backend)
    one = be.pi ** 0
    return -A * z ** 2 * (IS / I0) ** (one / 2)


def extended_log_gamma(IS, z, a, A, B, C=0, I0=1, backend=None):
    """Debye-Huckel extended formula"""
    be = get_backend(backend)
    one = be.pi ** 0
    I_I0 = IS / I0
    sqrt_I_I0 = (I_I0) ** (one / 2)
    return -A * z ** 2 * sqrt_I_I0 / (1 + B * a * sqrt_I_I0) + C * I_I0


def davies_log_gamma(IS, z, A, C=-0.3, I0=1, backend=None):
    """Davies formula"""
    be = get_backend(backend)
    one = be.pi ** 0
    I_I0 = IS / I0
    sqrt_I_I0 = (I_I0) ** (one / 2)
    return -A * z ** 2 * (sqrt_I_I0 / (1 + sqrt_I_I0) + C * I_I0)


def limiting_activity_product(IS, stoich, z, T, eps_r, rho, backend=None):
    """Product of activity coefficients based on DH limiting law."""
    be = get_backend(backend)
    Aval = A(eps_r, T, rho)
    tot = 0
    for idx, nr in enumerate(stoich):
        tot += nr * limiting_log_gamma(IS, z[idx], Aval)
    return be.exp(tot)


def extended_activity_product(IS, stoich, z, a, T, eps_r, rho, C=0, backend=None):
    be = get_backend(backend)
    Aval = A(eps_r, T, rho)
    Bval = B(eps_r, T, rho)
    tot = 0
    for idx, nr in enumerate(stoich):
        tot += nr * extended_log_gamma(IS, z[idx], a[idx], Aval, Bval, C)
    return be.exp(tot)


def davies_activity_product(IS, stoich, z, a, T, eps_r, rho, C=-0.3, backend=None):
    be = get_backend(backend)
    Aval = A(eps_r, T, rho)
    tot = 0
    for idx, nr in enumerate(stoich):
        tot += nr * davies_log_gamma(IS, z[idx], Aval, C)
    return be.exp(tot)


class LimitingDebyeHuckelActivityProduct(_ActivityProductBase):
    def __call__(self, c):
        z = self.args[0]
        IS = ionic_strength(c, z)
        return limiting_activity_product(IS, self.stoich, *self.args)


class ExtendedDebyeHuckelActivityProduct(_ActivityProductBase):
    def __call__(self, c):
        z = self.args[0]
        IS = ionic_strength(c, z)
        return extended_activity_product(IS, self.stoich, *self.args)
