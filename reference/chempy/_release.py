__version__ = "0.9.0.dev0+git"
