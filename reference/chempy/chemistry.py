# -*- coding: utf-8 -*-

from collections import OrderedDict, defaultdict
from functools import reduce
from itertools import chain, product
from operator import mul, add
import copy
import math
import warnings

from .util.arithmeticdict import ArithmeticDict
from .util._expr import Expr
from .util.periodic import mass_from_composition
from .util.parsing import (
    formula_to_composition,
    to_reaction,
    formula_to_latex,
    formula_to_unicode,
    formula_to_html,
)

from .units import default_units, is_quantity, unit_of, to_unitless
from ._util import intdiv
from .util.pyutil import deprecated, DeferredImport, ChemPyDeprecationWarning


ReactionSystem = DeferredImport(
    "chempy.reactionsystem",
    "ReactionSystem",
    [deprecated(use_instead="chempy.ReactionSystem")],
)


class Substance(object):
    """ Class representing a chemical substance

    Parameters
    ----------
    name : str
    charge : int (optional, default: None)
        Will be stored in composition[0], prefer composition when possible.
    latex_name : str
    unicode_name : str
    html_name : str
    composition : dict or None (default)
        Dictionary (int -> number) e.g. {atomic number: count}, zero has special
        meaning (net charge). Avoid using the key 0 unless you specifically mean
        net charge. The motivation behind this is that it is easier to track a
        net-charge of e.g. 6 for U(VI) than it is to remember that uranium has 92
        electrons and use 86 as the value).
    data : dict
        Free form dictionary. Could be simple such as ``{'mp': 0, 'bp': 100}``
        or considerably more involved, e.g.: ``{'diffusion_coefficient': {\
 'water': lambda T: 2.1*m**2/s/K*(T - 273.15*K)}}``.

    Attributes
    ----------
    mass
        Maps to data['mass'], and when unavailable looks for ``formula.mass``.
    attrs
        A tuple of attribute names for serialization.
    composition : dict or None
        Dictionary mapping fragment key (str) to amount (int).
    data
        Free form dictionary.

    Examples
    --------
    >>> ammonium = Substance('NH4+', 1, 'NH_4^+', composition={7: 1, 1: 4},
    ...     data={'mass': 18.0385, 'pKa': 9.24})
    >>> ammonium.name
    'NH4+'
    >>> ammonium.composition == {0: 1, 1: 4, 7: 1}  # charge represented by key '0'
    True
    >>> ammonium.data['mass']
    18.0385
    >>> ammonium.data['pKa']
    9.24
    >>> ammonium.mass  # mass is a special case (also attribute)
    18.0385
    >>> ammonium.pKa
    Traceback (most recent call last):
        ...
    AttributeError: 'Substance' object has no attribute 'pKa'
    >>> nh4p = Substance.from_formula('NH4+')  # simpler
    >>> nh4p.composition == {7: 1, 1: 4, 0: 1}
    True
    >>> nh4p.latex_name
    'NH_{4}^{+}'

    """

    attrs = ("name", "latex_name", "unicode_name", "html_name", "composition", "data")

    def __eq__(self, other):
        for attr in self.attrs:
            if getattr(self, attr) != getattr(other, attr):
                return False
        return True

    def __hash__(self) -> int:
        hashed_values = []
        for key in self.attrs:
            value = getattr(self, key)
            if isinstance(value, dict):
                hashed_values.append(hash(tuple(sorted(value.items()))))
            else:
                hashed_values.append(hash(value))
        return sum(hashed_values)

    @property
    def charge(self):
        """Convenience property for accessing ``composition[0]``"""
        return self.composition.get(0, 0)  # electron (net) deficiency

    @property
    def mass(self):
        """Convenience property for accessing ``data['mass']``

        when ``data['mass']`` is missing the mass is calculated
        from the :attr:`composition` using
        :func:`chempy.util.parsing.mass_from_composition`.
        """
        try:
            return self.data["mass"]
        except KeyError:
            if self.composition is not None:
                return mass_from_composition(self.composition)

    @mass.setter
    def mass(self, value):
        self.data["mass"] = value

    def molar_mass(self, units=None):
        """Returns the molar mass (with units) of the substance

        Examples
        --------
        >>> nh4p = Substance.from_formula('NH4+')  # simpler
        >>> from chempy.units import default_units as u
        >>> nh4p.molar_mass(u)
        array(18.0384511...) * g/mol

        """
        if units is None:
            units = default_units
        return self.mass * units.g / units.mol

    def __init__(
        self,
        name=None,
        charge=None,
        latex_name=None,
        unicode_name=None,
        html_name=None,
        composition=None,
        data=None,
    ):
        self.name = name
        self.latex_name = latex_name
        self.unicode_name = unicode_name
        self.html_name = html_name
        self.composition = composition

        if self.composition is not None and 0 in self.composition:
            if charge is not None:
                raise KeyError("Cannot give both charge and composition[0]")
        else:
            if charge is not None and composition is not None:
                self.composition[0] = charge
        self.data = data or {}

    @classmethod
    def from_formula(cls, formula, **kwargs):
        """Creates a :class:`Substance` instance from its formula

        Parameters
        ----------
        formula: str
            e.g. 'Na+', 'H2O', 'Fe(CN)6-4'
        \\*\\*kwargs:
            keyword arguments passed on to `.Substance`

        Examples
        --------
        >>> NH3 = Substance.from_formula('NH3')
        >>> NH3.composition == {1: 3, 7: 1}
        True
        >>> '%.2f' % NH3.mass
        '17.03'
        >>> NH3.charge
        0
        >>> NH3.latex_name
        'NH_{3}'

        """
        return cls(
            formula,
            latex_name=formula_to_latex(formula),
            unicode_name=formula_to_unicode(formula),
            html_name=formula_to_html(formula),
            composition=formula_to_composition(formula),
            **kwargs
        )

    def __repr__(self):
        kw = ["name=" + self.name + ", ..."]  # Too verbose to print all
        return "<{}({})>".format(self.__class__.__name__, ",".join(kw))

    def __str__(self):
        return str(self.name)

    def _repr_html_(self):
        return self.html_name

    @staticmethod
    def composition_keys(substance_iter, skip_keys=()):
        """Occurring :attr:`composition` keys among a series of substances"""
        keys = set()
        for s in substance_iter:
            if s.composition is None:
                continue
            for k in s.composition.keys():
                if k in skip_keys:
                    continue
                keys.add(k)
        return sorted(keys)


class Species(Substance):
    """Substance belonging to a phase

    Species extends :class:`Substance` with the new attribute :attr:`phase_idx`

    Attributes
    ----------
    phase_idx: int
        Index of the phase (default is 0)
    """

    def __init__(self, *args, **kwargs):
        phase_idx = kwargs.pop("phase_idx", 0)
        super(Species, self).__init__(*args, **kwargs)
        self.phase_idx = phase_idx

    @property
    @deprecated(last_supported_version="0.3.0", will_be_missing_in="0.8.0")
    def precipitate(self):
        """deprecated attribute, provided for compatibility for now"""
        return self.phase_idx > 0

    @classmethod
    def from_formula(
        cls, formula, phases=("(s)", "(l)", "(g)"), default_phase_idx=0, **kwargs
    ):
        """Create a :class:`Species` instance from its formula

        Analogous to :meth:`Substance.from_formula` but with the addition that
        phase_idx is determined from the formula (and a mapping provided by
        ``phases``)

        Parameters
        ----------
        formula: str
            e.g. 'H2O', 'NaCl(s)', 'CO2(aq)', 'CO2(g)'
        phases: iterable of str or dict mapping str -> int
            if not in \\*\\*kwargs, ``phase_idx`` is determined from the suffix
            of ``formula`` where the suffixes is mapped from phases:
                if ``phases`` is a dictionary:
                    ``phase_idx = phases[suffix]``
                else:
                    ``phase_idx = phases.index(suffix) + 1``
            and if suffixes is missing in phases phase_idx is taken to be 0
        default_phase_idx: int or None (default: 0)
            If ``default_phase_idx`` is ``None``, ``ValueError`` is raised for
                unknown suffixes.
            Else ``default_phase_idx`` is used as ``phase_idx`` in those cases.
        \\*\\*kwargs:
            Keyword arguments passed on.

        Examples
        --------
        >>> water = Species.from_formula('H2O')
        >>> water.phase_idx
        0
        >>> NaCl = Species.from_formula('NaCl(s)')
        >>> NaCl.phase_idx
        1
        >>> Hg_l = Species.from_formula('Hg(l)')
        >>> Hg_l.phase_idx
        2
        >>> CO2g = Species.from_formula('CO2(g)')
        >>> CO2g.phase_idx
        3
        >>> CO2aq = Species.from_formula('CO2(aq)', default_phase_idx=None)
        Traceback (most recent call last):
            ...
        ValueError: Could not determine phase_idx
        >>> CO2aq = Species.from_formula('CO2(aq)')
        >>> CO2aq.phase_idx
        0
        >>> CO2aq = Species.from_formula('CO2(aq)', ['(aq)'],
        ...     default_phase_idx=None)
        >>> CO2aq.phase_idx
        1
        >>> Species.from_formula('CO2(aq)', {'(aq)': 0}, None).phase_idx
        0


        Raises
        ------
        ValueError:
            if ``default_phase_idx`` is ``None`` and no suffix found in phases

        """
        if "phase_idx" in kwargs:
            p_i = kwargs.pop("phase_idx")
        else:
            p_i = None
            if isinstance(phases, dict):
                for k, v in phases.items():
                    if formula.endswith(k):
                        p_i = v
                        break
            else:
                for idx, phase in enumerate(phases):
                    if formula.endswith(phase):
                        p_i = idx + 1
                        break
            if p_i is None:
                if default_phase_idx is None:
                    raise ValueError("Could not determine phase_idx")
                else:
                    p_i = default_phase_idx
        # "(aq)" is a suffix of the formula notation even when it selects no phase
        suffixes = tuple(phases) + tuple(s for s in ("(aq)",) if s not in phases)
        return cls(
            formula,
            latex_name=formula_to_latex(formula, suffixes=suffixes),
            unicode_name=formula_to_unicode(formula, suffixes=suffixes),
            html_name=formula_to_html(formula, suffixes=suffixes),
            composition=formula_to_composition(formula, suffixes=suffixes),
            phase_idx=p_i,
            **kwargs
        )


@deprecated(
    last_supported_version="0.3.0", will_be_missing_in="0.8.0", use_instead=Species
)
class Solute(Substance):
    """[DEPRECATED] Use `.Species` instead

    Counter-intuitive to its name Solute has an additional
    property 'precipitate'

    """

    def __init__(self, *args, **kwargs):
        precipitate = kwargs.pop("precipitate", False)
        Substance.__init__(self, *args, **kwargs)
        self.precipitate = precipitate

    @classmethod
    def from_formula(cls, formula, **kwargs):
        if formula.endswith("(s)"):
            kwargs["precipitate"] = True
        return cls(
            formula,
            latex_name=formula_to_latex(formula),
            unicode_name=formula_to_unicode(formula),
            html_name=formula_to_html(formula),
            composition=formula_to_composition(formula),
            **kwargs
        )


class Reaction(object):
    """Class representing a chemical reaction

    Consider for example:

        2 R --> A + P; r = k*A*R*R

    this would be represented as ``Reaction({'A': 1, 'R': 2},
    {'A': 2, 'P': 1}, param=k)``. Some reactions have a larger
    stoichiometric coefficient than what appears in the rate
    expression, e.g.:

        5 A + B --> C; r = k*A*B

    this can be represented as ``Reaction({'C1': 1, 'C2': 1},
    {'B': 1}, inact_reac={'C1': 4}, param=k)``.

    The rate constant information in ``param`` may be a subclass of
    :class:`chempy.kinetics.rates.RateExpr` or carry a :meth:`as_RateExpr`,
    if neither: `param` will be assumed to be a rate constant for a mass-action
    type of kinetic expression.

    Additional data may be stored in the ``data`` dict.


    Parameters
    ----------
    reac : dict (str -> int)
        If ``reac`` is a ``set``, then multiplicities are assumed to be 1.
    prod : dict (str -> int)
        If ``prod`` is a ``set``, then multiplicities are assumed to be 1.
    param : float or callable
        Special case (side-effect): if param is a subclass of
        :class:`.kinetics.rates.RateExpr` and its :attr:`rxn`
        is `None` it will be set to `self`.
    inact_reac : dict (optional)
    inact_prod : dict (optional)
    name : str (optional)
    k : deprecated (alias for param)
    ref : object
        Reference (e.g. a string containing doi number).
    data : dict (optional)
    checks : iterable of str
        Raises ``ValueError`` if any method ``check_%s`` returns False
        for all ``%s`` in ``checks``. Default: ``Reaction.default_checks``.

    Attributes
    ----------
    reac : OrderedDict
    prod : OrderedDict
    param : object
    inact_reac : OrderedDict
    inact_prod : OrderedDict
    name : str
    ref : str
    data : dict

    Examples
    --------
    >>> r = Reaction({'H2': 2, 'O2': 1}, {'H2O': 2})
    >>> r.keys() == {'H2', 'O2', 'H2O'}
    True
    >>> r.order()
    3
    >>> r.net_stoich(['H2', 'H2O', 'O2'])
    (-2, 2, -1)
    >>> print(r)
    2 H2 + O2 -> 2 H2O

    """

    _cmp_attr = ("reac", "prod", "param", "inact_reac", "inact_prod")
    _all_attr = _cmp_attr + ("name", "ref", "data")
    _str_arrow = "->"

    param_char = "k"  # convention
    default_checks = {"any_effect", "all_positive", "all_integral", "consistent_units"}

    @staticmethod
    def _init_stoich(container):
        if isinstance(container, set):
            container = {k: 1 for k in container}
        container = container or {}
        if type(container) == dict:  # noqa
            # we don't want isinstance here in case of OrderedDict
            container = OrderedDict(sorted(container.items(), key=lambda kv: kv[0]))
        return container

    def __init__(
        self,
        reac,
        prod,
        param=None,
        inact_reac=None,
        inact_prod=None,
        name=None,
        ref=None,
        data=None,
        checks=None,
        dont_check=None,
    ):
        self.reac = self._init_stoich(reac)
        self.inact_reac = self._init_stoich(inact_reac)
        self.prod = self._init_stoich(prod)
        self.inact_prod = self._init_stoich(inact_prod)
        self.param = param
        self.name = name
        self.ref = ref
        self.data = data or {}
        if checks is not None and dont_check is not None:
            raise ValueError("Cannot specify both checks and dont_check")
        if checks is None:
            checks = self.default_checks ^ (dont_check or set())

        for check in checks:
            getattr(self, "check_" + check)(throw=True)

    @classmethod
    def from_string(cls, string, substance_keys=None, globals_=None, **kwargs):
        """Parses a string into a Reaction instance

        Parameters
        ----------
        string : str
            String representation of the reaction.
        substance_keys : convertible to iterable of strings or string or None
            Used prevent e.g. misspelling.
            if str: split is invoked, if None: no checking done.
        globals_ : dict (optional)
            Dictionary for eval for (default: None -> {'chempy': chempy})
            If ``False``: no eval will be called (useful for web-apps).
        \\*\\*kwargs :
            Passed on to constructor.

        Examples
        --------
        >>> r = Reaction.from_string("H2O -> H+ + OH-; 1e-4", 'H2O H+ OH-')
        >>> r.reac == {'H2O': 1} and r.prod == {'H+': 1, 'OH-': 1}
        True
        >>> r2 = Reaction.from_string("2 H2O -> 2 H2 + O2", 'H2O H2 O2')
        >>> r2.reac == {'H2O': 2} and r2.prod == {'H2': 2, 'O2': 1}
        True
        >>> r3 = Reaction.from_string("A -> B; 1/second", 'A B')
        >>> from chempy.units import to_unitless, default_units as u
        >>> to_unitless(r3.param, u.hour**-1)
        3600.0
        >>> r4 = Reaction.from_string("A -> 2 B; 'k'", 'A B')
        >>> r4.rate(dict(A=3, B=5, k=7)) == {'A': -3*7, 'B': 2*3*7}
        True
        >>> r5 = Reaction.from_string("A -> B; 1/molar/second", 'A B')
        Traceback (most recent call last):
            ...
        ValueError: Unable to convert between units ...


        Notes
        -----
        :func:`chempy.util.parsing.to_reaction` is used which in turn calls
        :func:`eval` which is a severe security concern for untrusted input.

        """
        if isinstance(substance_keys, str):
            if " " in substance_keys:
                substance_keys = substance_keys.split()
        return to_reaction(
            string, substance_keys, cls._str_arrow, cls, globals_, **kwargs
        )

    def copy(self, **kwargs):
        if "checks" not in kwargs:
            kwargs["checks"] = ()
        for k in self._all_attr:
            if k not in kwargs:
                kwargs[k] = copy.copy(getattr(self, k))
        return self.__class__(**kwargs)

    def check_any_effect(self, throw=False):
        """Checks if the reaction has any effect"""
        if not any(self.net_stoich(self.keys())):
            if throw:
                raise ValueError(
                    "The net stoichiometry change of all species are zero."
                )
            else:
                return False
        return True

    def check_all_positive(self, throw=False):
        """Checks if all stoichiometric coefficients are positive"""
        for nam, cont in [
            (nam, getattr(self, nam))
            for nam in "reac prod inact_reac inact_prod".split()
        ]:
            for k, v in cont.items():
                if v < 0:
                    if throw:
                        raise ValueError(
                            "Found a negative stoichiometry for %s in %s." % (k, nam)
                        )
                    else:
                        return False
        return True

    def check_all_integral(self, throw=False):
        """Checks if all stoichiometric coefficients are integers"""
        for nam, cont in [
            (nam, getattr(self, nam))
            for nam in "reac prod inact_reac inact_prod".split()
        ]:
            for k, v in cont.items():
                if v != int(v) and v != type(v)(int(v)):
                    if throw:
                        raise ValueError(
                            "Found a non-integer stoichiometric coefficient for %s in %s."
                            % (k, nam)
                        )
                    else:
                        return False
        return True

    def check_consistent_units(self, throw=False):
        if is_quantity(self.param):  # This will assume mass action
            if isinstance(self.param.item(), Expr):
                param = (
                    self.param.item()({"temperature": 1 * default_units.K})
                    * self.param.units
                )
            else:
                param = self.param
            try:
                to_unitless(
                    param
                    / (default_units.molar ** (1 - self.order()) / default_units.s)
                )
            except Exception:
                if throw:
                    raise
                else:
                    return False
            else:
                return True
        else:
            return True  # the user might not be using ``chempy.units``

    def __eq__(lhs, rhs):
        if lhs is rhs:
            return True
        if not isinstance(lhs, Reaction) or not isinstance(rhs, Reaction):
            return NotImplemented
        for attr in lhs._cmp_attr:
            if getattr(lhs, attr) != getattr(rhs, attr):
                return False
        return True

    def __hash__(self):
        return sum(
            map(
                hash,
                (
                    getattr(self, k)
                    for k in ["reac", "prod", "param", "inact_reac", "inact_prod"]
                ),
            )
        )

    def order(self):
        """Sum of (active) reactant stoichiometries"""
        return sum(self.reac.values())

    def keys(self):
        return set(
            chain(
                self.reac.keys(),
                self.prod.keys(),
                self.inact_reac.keys(),
                self.inact_prod.keys(),
            )
        )

    def net_stoich(self, substance_keys):
        """Per substance net stoichiometry tuple (active & inactive)"""
        return tuple(
            self.prod.get(k, 0)
            - self.reac.get(k, 0)
            + self.inact_prod.get(k, 0)
            - self.inact_reac.get(k, 0)
            for k in substance_keys
        )

    def all_reac_stoich(self, substances):
        """Per substance reactant stoichiometry tuple (active & inactive)"""
        return tuple(
            self.reac.get(k, 0) + self.inact_reac.get(k, 0) for k in substances
        )

    def active_reac_stoich(self, substances):
        """Per substance reactant stoichiometry tuple (active)"""
        return tuple(self.reac.get(k, 0) for k in substances)

    def all_prod_stoich(self, substances):
        """Per substance product stoichiometry tuple (active & inactive)"""
        return tuple(
            self.prod.get(k, 0) + self.inact_prod.get(k, 0) for k in substances
        )

    def active_prod_stoich(self, substances):
        """Per substance product stoichiometry tuple (active)"""
        return tuple(self.prod.get(k, 0) for k in substances)

    def _xprecipitate_stoich(self, substances, xor):
        return tuple(
            (
                0
                if xor ^ (getattr(v, "phase_idx", 0) > 0)
                else self.prod.get(k, 0)
                + self.inact_prod.get(k, 0)
                - self.reac.get(k, 0)
                - self.inact_reac.get(k, 0)
            )
            for k, v in substances.items()
        )

    def precipitate_stoich(self, substances):
        """Only stoichiometry of precipitates"""
        net = self._xprecipitate_stoich(substances, True)
        found1 = -1
        for idx in range(len(net)):
            if net[idx] != 0:
                if found1 == -1:
                    found1 = idx
                else:
                    raise NotImplementedError("Only one precipitate assumed.")
        return net, net[found1], found1

    def non_precipitate_stoich(self, substances):
        """Only stoichiometry of non-precipitates"""
        return self._xprecipitate_stoich(substances, False)

    def has_precipitates(self, substances):
        for s_name in chain(
            self.reac.keys(),
            self.prod.keys(),
            self.inact_reac.keys(),
            self.inact_prod.keys(),
        ):
            if getattr(substances[s_name], "phase_idx", 0) > 0:
                return True
        return False

    def string(self, substances=None, with_param=False, with_name=False, **kwargs):
        """Returns a string representation of the reaction

        Parameters
        ----------
        substances: dict
            mapping substance keys to Substance instances
        with_param: bool
            whether to print the parameter (default: False)
        with_name: bool
            whether to print the name (default: False)

        Examples
        --------
        >>> r = Reaction({'H+': 1, 'Cl-': 1}, {'HCl': 1}, 1e10)
        >>> r.string(with_param=False)
        'Cl- + H+ -> HCl'

        """
        from .printing import str_

        return str_(
            self,
            substances=substances,
            with_param=with_param,
            with_name=with_name,
            **kwargs
        )

    def __str__(self):
        return self.string(with_param=True, with_name=True)

    def latex(self, substances, with_param=False, with_name=False, **kwargs):
        r"""Returns a LaTeX representation of the reaction

        Parameters
        ----------
        substances: dict
            mapping substance keys to Substance instances
        with_param: bool
            whether to print the parameter (default: False)
        with_name: bool
            whether to print the name (default: False)

        Examples
        --------
        >>> keys = 'H2O H+ OH-'.split()
        >>> subst = {k: Substance.from_formula(k) for k in keys}
        >>> r = Reaction.from_string("H2O -> H+ + OH-; 1e-4", subst)
        >>> r.latex(subst) == r'H_{2}O \rightarrow H^{+} + OH^{-}'
        True
        >>> r2 = Reaction.from_string("H+ + OH- -> H2O; 1e8/molar/second", subst)
        >>> ref = r'H^{+} + OH^{-} \rightarrow H_{2}O; 10^{8} $\mathrm{\frac{1}{(s{\cdot}M)}}$'
        >>> r2.latex(subst, with_param=True) == ref
        True

        """
        from .printing import latex

        return latex(
            self,
            substances=substances,
            with_param=with_param,
            with_name=with_name,
            **kwargs
        )

    def unicode(self, substances, with_param=False, with_name=False, **kwargs):
        u"""Returns a unicode string representation of the reaction

        Examples
        --------
        >>> keys = 'H2O H+ OH-'.split()
        >>> subst = {k: Substance.from_formula(k) for k in keys}
        >>> r = Reaction.from_string("H2O -> H+ + OH-; 1e-4", subst)
        >>> r.unicode(subst) == u'H₂O → H⁺ + OH⁻'
        True
        >>> r2 = Reaction.from_string("H+ + OH- -> H2O; 1e8/molar/second", subst)
        >>> r2.unicode(subst, with_param=True) == u'H⁺ + OH⁻ → H₂O; 10⁸ 1/(s·M)'
        True

        """
        from .printing import unicode_

        return unicode_(
            self,
            substances=substances,
            with_param=with_param,
            with_name=with_name,
            **kwargs
        )

    def html(self, substances, with_param=False, with_name=False, **kwargs):
        """Returns a HTML representation of the reaction

        Examples
        --------
        >>> keys = 'H2O H+ OH-'.split()
        >>> subst = {k: Substance.from_formula(k) for k in keys}
        >>> r = Reaction.from_string("H2O -> H+ + OH-; 1e-4", subst)
        >>> r.html(subst)
        'H<sub>2</sub>O &rarr; H<sup>+</sup> + OH<sup>-</sup>'
        >>> r2 = Reaction.from_string("H+ + OH- -> H2O; 1e8/molar/second", subst)
        >>> r2.html(subst, with_param=True)
        'H<sup>+</sup> + OH<sup>-</sup> &rarr; H<sub>2</sub>O&#59; 10<sup>8</sup> 1/(s*M)'

        """
        from .printing import html

        return html(
            self,
            with_param=with_param,
            with_name=with_name,
            substances=substances,
            **kwargs
        )

    def _repr_html_(self):
        return self.html({k: k for k in self.keys()})

    def _violation(self, substances, attr):
        net = 0.0
        for substance, coeff in zip(
            substances.values(), self.net_stoich(substances.keys())
        ):
            net += getattr(substance, attr) * coeff
        return net

    def mass_balance_violation(self, substances):
        """Net amount of mass produced

        Parameters
        ----------
        substances: dict

        Returns
        -------
        float: amount of net mass produced/consumed

        """
        return self._violation(substances, "mass")

    def charge_neutrality_violation(self, substances):
        """Net amount of charge produced

        Parameters
        ----------
        substances: dict

        Returns
        -------
        float: amount of net charge produced/consumed

        """
        return self._violation(substances, "charge")

    def composition_violation(self, substances, composition_keys=None):
        """Net amount of constituent produced

        If composition keys correspond to conserved entities e.g. atoms
        in chemical reactions, this function should return a list of zeros.

        Parameters
        ----------
        substances : dict
        composition_keys : iterable of str, ``None`` or ``True``
            When ``None`` or True: composition keys are taken from substances.
            When ``True`` the keys are also return as an extra return value

        Returns
        -------
        - If ``composition_keys == True``: a tuple: (violations, composition_keys)
        - Otherwise: violations (list of coefficients)

        """
        keys, values = zip(*substances.items())
        ret_comp_keys = composition_keys is True
        if composition_keys in (None, True):
            composition_keys = Substance.composition_keys(values)
        net = [0] * len(composition_keys)
        for substance, coeff in zip(values, self.net_stoich(keys)):
            for idx, key in enumerate(composition_keys):
                net[idx] += substance.composition.get(key, 0) * coeff
        if ret_comp_keys:
            return net, composition_keys
        else:
            return net

    def rate_expr(self):
        """Turns self.param into a RateExpr instance (if not already)

        Default is to create a ``MassAction`` instance. The parameter will
        be used as single instance in ``unique_keys`` if it is a string,
        otherwise it will be used as ``args``.

        Examples
        --------
        >>> r = Reaction.from_string('2 A + B -> 3 C; 7')
        >>> ratex = r.rate_expr()
        >>> ratex.args[0] == 7
        True

        """
        from .util._expr import Expr
        from .kinetics import MassAction

        if isinstance(self.param, Expr):
            return self.param
        else:
            try:
                convertible = self.param.as_RateExpr
            except AttributeError:
                if isinstance(self.param, str):
                    return MassAction.fk(self.param)
                else:
                    return MassAction([self.param])
            else:
                return convertible()

    def rate(self, variables=None, backend=math, substance_keys=None, ratex=None):
        """Evaluate the rate of a reaction

        Parameters
        ----------
        variables : dict
        backend : module, optional
        substance_keys : iterable of str, optional
        ratex : RateExpr

        Returns
        -------
        Dictionary mapping substance keys to the reactions contribution to overall rates.

        Examples
        --------
        >>> rxn1 = Reaction.from_string('2 H2 + O2 -> 2 H2O; 3')
        >>> ref1 = 3*5*5*7
        >>> rxn1.rate({'H2': 5, 'O2': 7}) == {'H2': -2*ref1, 'O2': -ref1, 'H2O': 2*ref1}
        True
        >>> from sympy import Symbol
        >>> k = Symbol('k')
        >>> rxn2 = Reaction(rxn1.reac, rxn1.prod, k)
        >>> concentrations = {key: Symbol(key) for key in set.union(set(rxn1.reac), set(rxn1.prod))}
        >>> import pprint
        >>> pprint.pprint(rxn2.rate(concentrations))
        {'H2': -2*H2**2*O2*k, 'H2O': 2*H2**2*O2*k, 'O2': -H2**2*O2*k}

        """
        if variables is None:
            variables = {}
        if substance_keys is None:
            substance_keys = self.keys()
        if ratex is None:
            ratex = self.rate_expr()

        if isinstance(ratex, Expr):
            srat = ratex(variables, backend=backend, reaction=self)
        else:
            srat = ratex
        return {
            k: srat * v for k, v in zip(substance_keys, self.net_stoich(substance_keys))
        }


def equilibrium_quotient(concs, stoich):
    """Calculates the equilibrium quotient of an equilbrium

    Parameters
    ----------
    concs: array_like
        per substance concentration
    stoich: iterable of integers
        per substance stoichiometric coefficient

    Examples
    --------
    >>> '%.12g' % equilibrium_quotient([1.0, 1e-7, 1e-7], [-1, 1, 1])
    '1e-14'

    """
    import numpy as np

    if not hasattr(concs, "ndim") or concs.ndim == 1:
        tot = 1
    else:
        tot = np.ones(concs.shape[0])
        concs = concs.T

    for nr, conc in zip(stoich, concs):
        tot *= conc ** nr
    return tot


class Equilibrium(Reaction):
    """Represents an equilibrium reaction

    See :class:`Reaction` for parameters

    """

    _str_arrow = "="
    param_char = "K"  # convention

    def check_consistent_units(self, throw=False):
        if is_quantity(self.param):  # This will assume mass action
            exponent = sum(self.prod.values()) - sum(self.reac.values())
            unit_param = unit_of(self.param, simplified=True)
            unit_expected = unit_of(default_units.molar ** exponent, simplified=True)
            if unit_param == unit_expected:
                return True
            else:
                if throw:
                    raise ValueError(
                        "Inconsistent units in equilibrium: %s vs %s"
                        % (unit_param, unit_expected)
                    )
                else:
                    return False
        else:
            return True  # the user might not be using ``chempy.units``

    def as_reactions(
        self,
        kf=None,
        kb=None,
        units=None,
        variables=None,
        backend=math,
        new_name=None,
        **kwargs
    ):
        """Creates a forward and backward :class:`Reaction` pair

        Parameters
        ----------
        kf : float or RateExpr
        kb : float or RateExpr
        units : module
        variables : dict, optional
        backend : module

        """
        nb = sum(self.prod.values())
        nf = sum(self.reac.values())
        if units is None:
            if hasattr(kf, "units") or hasattr(kb, "units"):
                raise ValueError("units missing")
            c0 = 1
        else:
            c0 = 1 * units.molar  # standard concentration IUPAC

        if kf is None:
            fw_name = self.name
            bw_name = new_name
            if kb is None:
                try:
                    kf, kb = self.param
                except TypeError:
                    raise ValueError("Exactly one rate needs to be provided")
            else:
                kf = kb * self.param * c0 ** (nb - nf)
        elif kb is None:
            kb = kf / (self.param * c0 ** (nb - nf))
            fw_name = new_name
            bw_name = self.name
        else:
            raise ValueError("Exactly one rate needs to be provided")

        return (
            Reaction(
                self.reac,
                self.prod,
                kf,
                self.inact_reac,
                self.inact_prod,
                ref=self.ref,
                name=fw_name,
                **kwargs
            ),
            Reaction(
                self.prod,
                self.reac,
                kb,
                self.inact_prod,
                self.inact_reac,
                ref=self.ref,
                name=bw_name,
                **kwargs
            ),
        )

    def equilibrium_expr(self):
        """Turns self.param into a :class:`EqExpr` instance (if not already)

        Examples
        --------
        >>> r = Equilibrium.from_string('2 A + B = 3 C; 7')
        >>> eqex = r.equilibrium_expr()
        >>> eqex.args[0] == 7
        True

        """
        from .util._expr import Expr
        from .thermodynamics import MassActionEq

        if isinstance(self.param, Expr):
            return self.param
        else:
            try:
                convertible = self.param.as_EqExpr
            except AttributeError:
                return MassActionEq([self.param])
            else:
                return convertible()

    def equilibrium_constant(self, variables=None, backend=math):
        """Return equilibrium constant

        Parameters
        ----------
        variables : dict, optional
        backend : module, optional

        """
        return self.equilibrium_expr().eq_const(variables, backend=backend)

    def equilibrium_equation(self, variables, backend=None, **kwargs):
        return self.equilibrium_expr().equilibrium_equation(
            variables, equilibrium=self, backend=backend, **kwargs
        )

    @deprecated(use_instead=equilibrium_constant)
    def K(self, *args, **kwargs):
        return self.equilibrium_constant(*args, **kwargs)

    def Q(self, substances, concs):
        """Calculates the equilibrium qoutient"""
        stoich = self.non_precipitate_stoich(substances)
        return equilibrium_quotient(concs, stoich)

    def precipitate_factor(self, substances, sc_concs):
        factor = 1
        for r, n in self.reac.items():
            if r.precipitate:
                factor *= sc_concs[substances.index(r)] ** -n
        for p, n in self.prod.items():
            if p.precipitate:
                factor *= sc_concs[substances.index(p)] ** n
        return factor

    def dimensionality(self, substances):
        result = 0
        for r, n in self.reac.items():
            if getattr(substances[r], "phase_idx", 0) > 0:
                continue
            result -= n
        for p, n in self.prod.items():
            if getattr(substances[p], "phase_idx", 0) > 0:
                continue
            result += n
        return result

    def __rmul__(self, other):  # This works on both Py2 and Py3
        try:
            other_is_int = other.is_integer
        except AttributeError:
            other_is_int = isinstance(other, int)
        if not other_is_int or not isinstance(self, Equilibrium):
            return NotImplemented
        param = None if self.param is None else self.param ** other
        if other < 0:
            other *= -1
            flip = True
        else:
            flip = False
        other = int(other)  # convert SymPy "Integer" to Python "int"
        reac = dict(other * ArithmeticDict(int, self.reac))
        prod = dict(other * ArithmeticDict(int, self.prod))
        inact_reac = dict(other * ArithmeticDict(int, self.inact_reac))
        inact_prod = dict(other * ArithmeticDict(int, self.inact_prod))
        if flip:
            reac, prod = prod, reac
            inact_reac, inact_prod = inact_prod, inact_reac
        return Equilibrium(
            reac, prod, param, inact_reac=inact_reac, inact_prod=inact_prod
        )

    def __neg__(self):
        return -1 * self

    def __mul__(self, other):
        return other * self

    def __add__(self, other):
        keys = set()
        for key in chain(
            self.reac.keys(), self.prod.keys(), other.reac.keys(), other.prod.keys()
        ):
            keys.add(key)
        reac, prod = {}, {}
        for key in keys:
            n = (
                self.prod.get(key, 0)
                - self.reac.get(key, 0)
                + other.prod.get(key, 0)
                - other.reac.get(key, 0)
            )
            if n < 0:
                reac[key] = -n
            elif n > 0:
                prod[key] = n
            else:
                pass  # n == 0
        if (self.param, other.param) == (None, None):
            param = None
        else:
            param = self.param * other.param
        return Equilibrium(reac, prod, param)

    def __sub__(self, other):
        return self + -1 * other

    @staticmethod
    def eliminate(rxns, wrt):
        """Linear combination coefficients for elimination of a substance

        Parameters
        ----------
        rxns : iterable of Equilibrium instances
        wrt : str (substance key)

        Examples
        --------
        >>> e1 = Equilibrium({'Cd+2': 4, 'H2O': 4}, {'Cd4(OH)4+4': 1, 'H+': 4}, 10**-32.5)
        >>> e2 = Equilibrium({'Cd(OH)2(s)': 1}, {'Cd+2': 1, 'OH-': 2}, 10**-14.4)
        >>> Equilibrium.eliminate([e1, e2], 'Cd+2')
        [1, 4]
        >>> print(1*e1 + 4*e2)
        4 Cd(OH)2(s) + 4 H2O = Cd4(OH)4+4 + 4 H+ + 8 OH-; 7.94e-91

        """
        import sympy

        viol = [r.net_stoich([wrt])[0] for r in rxns]
        factors = defaultdict(int)
        for v in viol:
            for f in sympy.primefactors(v):
                factors[f] = max(factors[f], sympy.Abs(v // f))
        rcd = reduce(mul, (k ** v for k, v in factors.items()), 1)
        viol[0] *= -1
        return [rcd // v for v in viol]

    def cancel(self, rxn):
        """Multiplier of how many times rxn can be added/subtracted.

        Parameters
        ----------
        rxn : Equilibrium

        Examples
        --------
        >>> e1 = Equilibrium({'Cd(OH)2(s)': 4, 'H2O': 4},
        ...                  {'Cd4(OH)4+4': 1, 'H+': 4, 'OH-': 8}, 7.94e-91)
        >>> e2 = Equilibrium({'H2O': 1}, {'H+': 1, 'OH-': 1}, 10**-14)
        >>> e1.cancel(e2)
        -4
        >>> print(e1 - 4*e2)
        4 Cd(OH)2(s) = Cd4(OH)4+4 + 4 OH-; 7.94e-35

        """
        keys = rxn.keys()
        s1 = self.net_stoich(keys)
        s2 = rxn.net_stoich(keys)
        candidate = float("inf")
        for v1, v2 in zip(s1, s2):
            r = intdiv(-v1, v2)
            candidate = min(candidate, r, key=abs)
        return candidate


def _solve_balancing_ilp_pulp(A):
    import pulp

    x = [
        pulp.LpVariable("x%d" % i, lowBound=1, cat="Integer") for i in range(A.shape[1])
    ]
    prob = pulp.LpProblem("chempy_balancing_problem", pulp.LpMinimize)
    prob += reduce(add, x)
    for expr in [
        pulp.lpSum([x[i] * e for i, e in enumerate(row)]) for row in A.tolist()
    ]:
        prob += expr == 0
    prob.solve(pulp.PULP_CBC_CMD(msg=False))
    return [pulp.value(_) for _ in x]


def balance_stoichiometry(
    reactants,
    products,
    substances=None,
    substance_factory=Substance.from_formula,
    parametric_symbols=None,
    underdetermined=True,
    allow_duplicates=False,
):
    """Balances stoichiometric coefficients of a reaction

    Parameters
    ----------
    reactants : iterable of reactant keys
    products : iterable of product keys
    substances : OrderedDict or string or None
        Mapping reactant/product keys to instances of :class:`Substance`.
    substance_factory : callback
    parametric_symbols : generator of symbols
        Used to generate symbols for parametric solution for
        under-determined system of equations. Default is numbered "x-symbols" starting
        from 1.
    underdetermined : bool
        Allows to find a non-unique solution (in addition to a constant factor
        across all terms). Set to ``False`` to disallow (raise ValueError) on
        e.g. "C + O2 -> CO + CO2". Set to ``None`` if you want the symbols replaced
        so that the coefficients are the smallest possible positive (non-zero) integers.
    allow_duplicates : bool
        If False: raises an exception if keys appear in both ``reactants`` and ``products``.

    Examples
    --------
    >>> ref = {'C2H2': 2, 'O2': 3}, {'CO': 4, 'H2O': 2}
    >>> balance_stoichiometry({'C2H2', 'O2'}, {'CO', 'H2O'}) == ref
    True
    >>> ref2 = {'H2': 1, 'O2': 1}, {'H2O2': 1}
    >>> balance_stoichiometry('H2 O2'.split(), ['H2O2'], 'H2 O2 H2O2') == ref2
    True
    >>> reac, prod = 'CuSCN KIO3 HCl'.split(), 'CuSO4 KCl HCN ICl H2O'.split()
    >>> Reaction(*balance_stoichiometry(reac, prod)).string()
    '4 CuSCN + 7 KIO3 + 14 HCl -> 4 CuSO4 + 7 KCl + 4 HCN + 7 ICl + 5 H2O'
    >>> balance_stoichiometry({'Fe', 'O2'}, {'FeO', 'Fe2O3'}, underdetermined=False)
    Traceback (most recent call last):
        ...
    ValueError: The system was under-determined
    >>> r, p = balance_stoichiometry({'Fe', 'O2'}, {'FeO', 'Fe2O3'})
    >>> list(set.union(*[v.free_symbols for v in r.values()]))
    [x1]
    >>> b = balance_stoichiometry({'Fe', 'O2'}, {'FeO', 'Fe2O3'}, underdetermined=None)
    >>> b == ({'Fe': 3, 'O2': 2}, {'FeO': 1, 'Fe2O3': 1})
    True
    >>> d = balance_stoichiometry({'C', 'CO'}, {'C', 'CO', 'CO2'}, underdetermined=None, allow_duplicates=True)
    >>> d == ({'CO': 2}, {'C': 1, 'CO2': 1})
    True

    Returns
    -------
    balanced reactants : dict
    balanced products : dict

    """
    import sympy
    from sympy import (
        MutableDenseMatrix,
        gcd,
        zeros,
        linsolve,
        numbered_symbols,
        nsimplify,
        Wild,
        Symbol,
        Integer,
        Tuple,
        preorder_traversal as pre,
    )

    _intersect = sorted(set.intersection(*map(set, (reactants, products))))
    if _intersect:
        if allow_duplicates:
            if underdetermined is not None:
                raise NotImplementedError(
                    "allow_duplicates currently requires underdetermined=None"
                )
            if set(reactants) == set(products):
                raise ValueError("cannot balance: reactants and products identical")

            # For each duplicate, try to drop it completely:
            for dupl in _intersect:
                try:
                    result = balance_stoichiometry(
                        [sp for sp in reactants if sp != dupl],
                        [sp for sp in products if sp != dupl],
                        substances=substances,
                        substance_factory=substance_factory,
                        underdetermined=underdetermined,
                        allow_duplicates=True,
                    )
                except Exception:
                    continue
                else:
                    return result
            for perm in product(
                *[(False, True)] * len(_intersect)
            ):  # brute force (naive)
                r = set(reactants)
                p = set(products)
                for remove_reac, dupl in zip(perm, _intersect):
                    if remove_reac:
                        r.remove(dupl)
                    else:
                        p.remove(dupl)
                try:
                    result = balance_stoichiometry(
                        r,
                        p,
                        substances=substances,
                        substance_factory=substance_factory,
                        parametric_symbols=parametric_symbols,
                        underdetermined=underdetermined,
                        allow_duplicates=False,
                    )
                except ValueError:
                    continue
                else:
                    return result
            else:
                raise ValueError("Failed to remove duplicate keys: %s" % _intersect)
        else:
            raise ValueError("Substances on both sides: %s" % str(_intersect))
    if substances is None:
        substances = OrderedDict(
            [(k, substance_factory(k)) for k in chain(reactants, products)]
        )
    if isinstance(substances, str):
        substances = OrderedDict(
            [(k, substance_factory(k)) for k in substances.split()]
        )
    if type(reactants) == set:  # noqa
        # we don't want isinstance since it might be "OrderedSet"
        reactants = sorted(reactants)
    if type(products) == set:  # noqa
        products = sorted(products)
    subst_keys = list(reactants) + list(products)

    cks = Substance.composition_keys(substances.values())

    if parametric_symbols is None:
        parametric_symbols = numbered_symbols("x", start=1, integer=True, positive=True)

    # ?C2H2 + ?O2 -> ?CO + ?H2O
    # Ax = 0
    #   A:                    x:
    #
    #   C2H2   O2  CO  H2O
    # C -2     0    1   0      x0    =   0
    # H -2     0    0   2      x1        0
    # O  0    -2    1   1      x2        0
    #                          x3

    def _get(ck, sk):
        return substances[sk].composition.get(ck, 0) * (-1 if sk in reactants else 1)

    for ck in cks:  # check that all components are present on reactant & product sides
        for rk in reactants:
            if substances[rk].composition.get(ck, 0) != 0:
                break
        else:
            any_pos = any(substances[pk].composition.get(ck, 0) > 0 for pk in products)
            any_neg = any(substances[pk].composition.get(ck, 0) < 0 for pk in products)
            if any_pos and any_neg:
                pass  # negative and positive parts among products, no worries
            else:
                raise ValueError("Component '%s' not among reactants" % ck)

        for pk in products:
            if substances[pk].composition.get(ck, 0) != 0:
                break
        else:
            any_pos = any(substances[pk].composition.get(ck, 0) > 0 for pk in reactants)
            any_neg = any(substances[pk].composition.get(ck, 0) < 0 for pk in reactants)
            if any_pos and any_neg:
                pass  # negative and positive parts among reactants, no worries
            else:
                raise ValueError("Component '%s' not among products" % ck)

    A = MutableDenseMatrix([[_get(ck, sk) for sk in subst_keys] for ck in cks])
    A = nsimplify(A)
    symbs = list(reversed([next(parametric_symbols) for _ in range(len(subst_keys))]))
    (sol,) = linsolve((A, zeros(len(cks), 1)), symbs)
    try:
        sol = nsimplify(sol)
    except (AttributeError):
        pass

    wi = Wild("wi", properties=[lambda k: not k.has(Symbol)])
    cd = reduce(
        gcd,
        [1]
        + [
            1 / m[wi]
            for m in map(lambda n: n.match(symbs[-1] / wi), pre(sol))
            if m is not None
        ],
    )
    sol = sol.func(*[arg / cd for arg in sol.args])

    def remove(cont, symb, remaining):
        subsd = dict(zip(remaining / symb, remaining))
        cont = cont.func(*[(arg / symb).expand().subs(subsd) for arg in cont.args])
        if cont.has(symb):
            raise ValueError(
                "Bug, please report an issue at https://github.com/bjodah/chempy"
            )
        return cont

    done = False
    for idx, symb in enumerate(symbs):
        for expr in sol:
            iterable = expr.args if expr.is_Add else [expr]
            for term in iterable:
                if term.is_number:
                    done = True
                    break
            if done:
                break
        if done:
            break
        for expr in sol:
            if (expr / symb).is_number:
                sol = remove(sol, symb, MutableDenseMatrix(symbs[idx + 1 :]))
                break
    for symb in symbs:
        cd = 1
        for expr in sol:
            iterable = expr.args if expr.is_Add else [expr]
            for term in iterable:
                if term.is_Mul and term.args[0].is_number and term.args[1] == symb:
                    cd = gcd(cd, term.args[0])
        if cd != 1:
            sol = sol.func(*[arg.subs(symb, symb / cd) for arg in sol.args])
    integer_one = 1  # need 'is' check, SyntaxWarning when checking against literal
    if underdetermined is integer_one:
        from ._release import __version__

        if int(__version__.split(".")[1]) > 6:
            warnings.warn(  # deprecated because comparison with ``1`` problematic (True==1)
                (
                    "Pass underdetermined == None instead of ``1`` (deprecated since 0.7.0,"
                    " will_be_missing_in='0.9.0')"
                ),
                ChemPyDeprecationWarning,
            )
        underdetermined = None
    if underdetermined is None:
        sol = Tuple(*[Integer(x) for x in _solve_balancing_ilp_pulp(A)])

    fact = gcd(sol)
    sol = MutableDenseMatrix([e / fact for e in sol]).reshape(len(sol), 1)
    sol /= reduce(gcd, sol)
    sol = nsimplify(sol)

    if 0 in sol:
        raise ValueError("Superfluous species given.")
    if any(x.is_negative for x in sol):
        raise ValueError("Unable to balance: species given on the wrong side.")
    if underdetermined:
        if any(x == sympy.nan for x in sol):
            raise ValueError("Failed to balance reaction")
    else:
        for x in sol:
            if len(x.free_symbols) != 0:
                raise ValueError("The system was under-determined")
        if not all(residual == 0 for residual in A * sol):
            raise ValueError("Failed to balance reaction")

    def _x(k):
        coeff = sol[subst_keys.index(k)]
        return int(coeff) if underdetermined is None else coeff

    return (
        OrderedDict([(k, _x(k)) for k in reactants]),
        OrderedDict([(k, _x(k)) for k in products]),
    )


def mass_fractions(
    stoichiometries, substances=None, substance_factory=Substance.from_formula
):
    """Calculates weight fractions of each substance in a stoichiometric dict

    Parameters
    ----------
    stoichiometries : dict or set
        If a ``set``: all entries are assumed to correspond to unit multiplicity.
    substances: dict or None

    Examples
    --------
    >>> r = mass_fractions({'H2': 1, 'O2': 1})
    >>> mH2, mO2 = 1.008*2, 15.999*2
    >>> abs(r['H2'] - mH2/(mH2+mO2)) < 1e-4
    True
    >>> abs(r['O2'] - mO2/(mH2+mO2)) < 1e-4
    True
    >>> mass_fractions({'H2O2'}) == {'H2O2': 1.0}
    True

    """
    if isinstance(stoichiometries, set):
        stoichiometries = {k: 1 for k in stoichiometries}
    if substances is None:
        substances = OrderedDict([(k, substance_factory(k)) for k in stoichiometries])
    tot_mass = sum([substances[k].mass * v for k, v in stoichiometries.items()])
    return {k: substances[k].mass * v / tot_mass for k, v in stoichiometries.items()}
