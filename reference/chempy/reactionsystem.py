# -*- coding: utf-8 -*-

import math

from collections import OrderedDict, defaultdict
from itertools import chain

from .chemistry import Reaction, Substance
from .units import to_unitless
from .util.pyutil import deprecated


class ReactionSystem(object):
    """Collection of reactions forming a system (model).

    Parameters
    ----------
    rxns : sequence
         Sequence of :py:class:`Reaction` instances.
    substances : OrderedDict or string or None
         Mapping str -> Substance instances, None => deduced from reactions.
         If a set is passed as substances (or a string which is split), then
         ``substance_factory`` will be used to construct substances from the items.
    name : string (optional)
         Name of ReactionSystem (e.g. model name / citation key).
    checks : iterable of str, optional
        Raises ``ValueError`` if any method ``check_%s`` returns False
        for all ``%s`` in ``checks``. Default: ``ReactionSystem.default_checks``.
    substance_factory : callback
        Could also be e.g. :meth:`Substance.from_formula`.
    sort_substances : bool
        Sort keys in substances lexicographically by key? default: ``None`` implies
        True unless substances is either one of ``OrderedDict``, list, tuple or str.

    Attributes
    ----------
    rxns : list of objects
        Sequence of :class:`Reaction` instances.
    substances : OrderedDict or string or iterable of strings/Substance
        Mapping substance name to substance index.
    ns : int
        Number of substances.
    nr : int
        Number of reactions.

    Examples
    --------
    >>> from chempy import Reaction
    >>> r1 = Reaction({'R1': 1}, {'P1': 1}, 42.0)
    >>> rsys = ReactionSystem([r1], 'R1 P1')
    >>> rsys.as_per_substance_array({'R1': 2, 'P1': 3})
    array([2., 3.])

    Raises
    ------
    ValueError
        When any reaction occurs more than once

    """

    _BaseReaction = Reaction
    _BaseSubstance = Substance
    default_checks = {"balance", "substance_keys", "duplicate", "duplicate_names"}

    def __init__(
        self,
        rxns,
        substances=None,
        name=None,
        checks=None,
        dont_check=None,
        substance_factory=Substance,
        missing_substances_from_keys=False,
        sort_substances=None,
    ):
        self.rxns = list(rxns)
        if substances is None:
            if self.rxns:
                substances = set.union(*[set(rxn.keys()) for rxn in self.rxns])
            else:
                substances = set()

        if sort_substances is None:
            if isinstance(substances, (OrderedDict, tuple, list, str)):
                sort_substances = False
            else:
                sort_substances = True
        if isinstance(substances, OrderedDict):
            self.substances = substances
        elif isinstance(substances, (str, set)):
            if isinstance(substances, str) and " " in substances:
                substances = substances.split()
            self.substances = OrderedDict(
                [(s, substance_factory(s)) for s in substances]
            )
        else:
            if all(isinstance(s, Substance) for s in substances):
                self.substances = OrderedDict([(s.name, s) for s in substances])
            elif hasattr(substances, "values") and all(
                isinstance(s, Substance) for s in substances.values()
            ):
                self.substances = OrderedDict(substances)
            else:
                self.substances = OrderedDict(
                    (k, substance_factory(k)) for k in substances
                )

        if missing_substances_from_keys:
            for k in set.union(*[set(rxn.keys()) for rxn in self.rxns]) - set(
                self.substances
            ):
                self.substances[k] = substance_factory(k)

        self.name = name

        if checks is not None and dont_check is not None:
            raise ValueError("Cannot specify both checks and dont_check")
        if checks is None:
            checks = self.default_checks ^ (dont_check or set())
        for check in checks:
            getattr(self, "check_" + check)(throw=True)

        if sort_substances:
            self.sort_substances_inplace()

    def split(self, **kwargs):
        """Splits the reaction system into multiple disjoint reaction systems."""
        groups = []  # tuples of (list, set) -- list of reactions, set of substance keys
        for i, r in enumerate(self.rxns):
            for gr, gs in groups:  # check if reaction is part of group, break out
                rks = r.keys()
                group_found = False
                for k in rks:
                    if k in gs:
                        gr.append(i)
                        gs.update(rks)
                        group_found = True
                        break
                if group_found:
                    break
            else:  # reaction did not fit any group
                groups.append(([i], set(r.keys())))
        # We might have too many groups as this point, we will now recursively fuse groups
        i = 0
        while True:
            for j in range(i + 1, len(groups)):
                if groups[i][1] & groups[j][1]:  # do groups share a substance?
                    groups[i][0].extend(groups[j][0])
                    groups[i][1].update(groups[j][1])
                    groups.pop(j)
                    break
            else:
                i += 1
            if i >= len(groups):
                break
        return [
            self.__class__(
                [self.rxns[ri] for ri in gr],
                OrderedDict([(k, v) for k, v in self.substances.items() if k in gs]),
                **kwargs
            )
            for gr, gs in groups
        ]

    def categorize_substances(self, **kwargs):
        """Returns categories of substance keys (e.g. nonparticipating, unaffected etc.)

        Some substances are only *accumulated* (i.e. irreversibly formed) and are never net
        reactants in any reactions, others are *depleted* (they are never net proucts in
        any reaction). Some substanaces are *unaffected* since they appear with equal coefficients on
        both reactant and product side, while some may be *nonparticipating* (they don't appear on
        either side and have thus no effect on the reactionsystem).

        Parameters
        ----------
        \\*\\*kwargs:
             Keyword arguments passed on to :class:`ReactionSystem`.

        Returns
        -------
        dict of sets of substance keys, the dictionary has the following keys:
            - ``'accumulated'``: keys only participating as net products.
            - ``'depleted'``: keys only participating as net reactants.
            - ``'unaffected'``: keys appearing in reactions but with zero net effect.
            - ``'nonparticipating'``: keys not appearing in any reactions.

        """
        import numpy as np

        irrev_rxns = []
        for r in self.rxns:
            try:
                irrev_rxns.extend(r.as_reactions())
            except AttributeError:
                irrev_rxns.append(r)
        irrev_rsys = ReactionSystem(irrev_rxns, self.substances, **kwargs)
        all_r = irrev_rsys.all_reac_stoichs()
        all_p = irrev_rsys.all_prod_stoichs()
        if np.any(all_r < 0) or np.any(all_p < 0):
            raise ValueError("Expected positive stoichiometric coefficients")
        net = all_p - all_r
        accumulated, depleted, unaffected, nonparticipating = set(), set(), set(), set()
        for i, sk in enumerate(irrev_rsys.substances.keys()):
            in_r = np.any(net[:, i] < 0)
            in_p = np.any(net[:, i] > 0)
            if in_r and in_p:
                pass
            elif in_r:
                depleted.add(sk)
            elif in_p:
                accumulated.add(sk)
            else:
                if np.any(all_p[:, i] > 0):
                    assert np.all(
                        all_p[:, i] == all_r[:, i]
                    ), "Open issue at github.com/bjodah/chempy"
                    unaffected.add(sk)
                else:
                    nonparticipating.add(sk)
        return dict(
            accumulated=accumulated,
            depleted=depleted,
            unaffected=unaffected,
            nonparticipating=nonparticipating,
        )

    def sort_substances_inplace(self, key=lambda kv: kv[0]):
        """Sorts the OrderedDict attribute ``substances``"""
        self.substances = OrderedDict(sorted(self.substances.items(), key=key))

    def _category_colors(self, checks=()):
        colors = {}
        categories = self.categorize_substances(checks=checks)
        for k in categories["accumulated"]:
            colors[k] = ("90ee90", "008000")  # LightGreen, Green
        for k in categories["depleted"]:
            colors[k] = ("ffb6c1", "c71585")  # LightPink, MediumVioletRed
        return colors

    def html(
        self,
        with_param=True,
        with_name=True,
        checks=(),
        color_categories=True,
        split=True,
        print_fn=None,
    ):
        """Returns a string with an HTML representation

        Parameters
        ----------
        with_param : bool
        with_name : bool
        checks : tuple
        color_categories : bool
        split : bool
        print_fn : callable
            default: :func:`chempy.printing.html`

        """
        if print_fn is None:
            from .printing import html as print_fn

        if split:
            parts = self.split(checks=checks)
            if len(parts) > 1:
                return "<br><hl><br>".join(
                    rs.html(with_param=with_param, with_name=with_name) for rs in parts
                )
        colors = self._category_colors(checks=checks) if color_categories else {}
        return print_fn(self, colors=colors, substances=self.substances)

    def string(self, with_param=True, with_name=True):
        from .printing import str_

        return str_(self, with_param=with_param, with_name=with_name)

    def _repr_html_(self):  # jupyter notebook hook
        from .printing import javascript

        return self.html(print_fn=javascript)

    def check_duplicate(self, throw=False):
        """Raies ValueError if there are duplicates in ``self.rxns``"""
        for i1, rxn1 in enumerate(self.rxns):
            for i2, rxn2 in enumerate(self.rxns[i1 + 1 :], i1 + 1):
                if rxn1 == rxn2:
                    if throw:
                        raise ValueError(
                            "Duplicate reactions %d & %d: %s"
                            % (i1, i2, rxn1.string(with_param=False, with_name=False))
                        )
                    else:
                        return False
        return True

    def check_duplicate_names(self, throw=False):
        names_seen = {}
        for idx, rxn in enumerate(self.rxns):
            if rxn.name is None:
                continue
            if rxn.name in names_seen:
                if throw:
                    raise ValueError("Duplicate names at %d: %s" % (idx, rxn.name))
                else:
                    return False
            else:
                names_seen[rxn.name] = idx
        return True

    def check_substance_keys(self, throw=False):
        for rxn in self.rxns:
            for key in chain(rxn.reac, rxn.prod, rxn.inact_reac, rxn.inact_prod):
                if key not in self.substances:
                    if throw:
                        raise ValueError("Unknown key: %s" % key)
                    else:
                        return False
        return True

    def check_balance(self, strict=False, throw=False):
        """Checks if all reactions are balanced.

        Parameters
        ----------
        strict : bool
            Puts a requirement on all substances to have their ``composition`` attribute set.
        throw : bool
            Raies ValueError if there are unbalanecd reactions in self.rxns

        """
        for subst in self.substances.values():
            if subst.composition is None:
                if strict:
                    if throw:
                        raise ValueError("No composition for %s" % str(subst))
                    else:
                        return False
                else:
                    return True
        for rxn in self.rxns:
            for net, k in zip(
                *rxn.composition_violation(self.substances, composition_keys=True)
            ):
                if net != 0:
                    if throw:
                        raise ValueError(
                            "Composition violation (%s: %s) in %s"
                            % (k, net, rxn.string(with_param=False, with_name=False))
                        )
                    else:
                        return False
        return True

    def obeys_mass_balance(self):
        """Returns True if all reactions obeys mass balance, else False."""
        for rxn in self.rxns:
            if rxn.mass_balance_violation(self.substances) != 0:
                return False
        return True

    def obeys_charge_neutrality(self):
        """Returns False if any reaction violate charge neutrality."""
        for rxn in self.rxns:
            if rxn.charge_neutrality_violation(self.substances) != 0:
                return False
        return True

    @classmethod
    def from_string(
        cls, s, substances=None, rxn_parse_kwargs=None, comment_tokens=("#",), **kwargs
    ):
        """Create a reaction system from a string

        Parameters
        ----------
        s : str
            Multiline string.
        substances : convertible to iterable of str
        rxn_parse_kwargs : dict
            Keyword arguments passed on to the Reaction baseclass' method ``from_string``.
        comment_tokens : iterable of str instances
            Tokens which causes lines to be ignored when prefixed by any of them.
        substance_factory : callable
            Defaults to ``cls._BaseSubstance.from_formula``. Can be set to e.g. ``Substance``.
        \\*\\*kwargs:
            Keyword arguments passed to the constructor of the class

        Examples
        --------
        >>> rs = ReactionSystem.from_string('\\n'.join(['2 HNO2 -> H2O + NO + NO2; 3', '2 NO2 -> N2O4; 4']))
        >>> r1, r2 = 5*5*3, 7*7*4
        >>> rs.rates({'HNO2': 5, 'NO2': 7}) == {'HNO2': -2*r1, 'H2O': r1, 'NO': r1, 'NO2': r1 - 2*r2, 'N2O4': r2}
        True

        """
        substance_keys = (
            None if kwargs.get("missing_substances_from_keys", False) else substances
        )
        rxns = [
            cls._BaseReaction.from_string(r, substance_keys, **(rxn_parse_kwargs or {}))
            for r in s.split("\n")
            if r.strip() != ""
            and not any(r.strip().startswith(tok) for tok in comment_tokens)
        ]
        if "substance_factory" not in kwargs:
            kwargs["substance_factory"] = cls._BaseSubstance.from_formula
        return cls(rxns, substances, **kwargs)

    def __getitem__(self, key):
        candidate = None
        for r in self.rxns:
            if r.name == key:
                if candidate is None:
                    candidate = r
                else:
                    raise ValueError("Multiple reactions with the same name")
        if candidate is None:
            raise KeyError("No reaction with name %s found" % key)
        return candidate

    def subset(self, pred, checks=()):
        """Creates two new instances with the distinct subsets of reactions

        First ReactionSystem will contain the reactions for which the predicate
        is True, the second for which it is False.

        Parameters
        ----------
        pred : callable
            Signature: ``pred(Reaction) -> bool``.
        checks : tuple
            See ``ReactionSystem``.

        Returns
        -------
        length 2 tuple
        """
        yes_no = yes, no = [], []
        for r in self.rxns:
            yes.append(r) if pred(r) else no.append(r)

        def new_substances(coll):
            return OrderedDict(
                [
                    (k, v)
                    for k, v in self.substances.items()
                    if any([k in r.keys() for r in coll])
                ]
            )

        return tuple(
            self.__class__(coll, substances=new_substances(coll), checks=checks)
            for coll in yes_no
        )

    @staticmethod
    def concatenate(rsystems, cmp_attrs="reac inact_reac prod inact_prod".split()):
        """Concatenates ReactionSystem instances

        Reactions with identical stoichiometries are added to a separated
        reactionsystem for "duplicates"

        Parameters
        ----------
        rsystems : iterable of ReactionSystem instances

        Returns
        -------
        pair of ReactionSystem instances: the "sum" and "duplicates"

        """
        iter_rs = iter(rsystems)
        rsys = next(iter_rs)
        skipped = ReactionSystem([])

        def _pred(r):
            for rr in rsys.rxns:
                for attr in cmp_attrs:
                    if getattr(r, attr) != getattr(rr, attr):
                        break
                else:
                    return False
            return True

        for rs in iter_rs:
            yes, no = rs.subset(_pred)
            rsys += yes
            skipped += no
        return rsys, skipped

    def __iadd__(self, other):
        try:
            self.substances.update(other.substances)
        except AttributeError:
            other = list(other)
            if not all(isinstance(r, Reaction) for r in other):
                raise ValueError("Need an iterable of Reaction instances")
            self.rxns.extend(other)
        else:
            self.rxns.extend(other.rxns)
        return self

    def __add__(self, other):
        try:
            substances = OrderedDict(
                chain(self.substances.items(), other.substances.items())
            )
        except AttributeError:
            substances = self.substances.copy()
        other_rxns = list(getattr(other, "rxns", other))
        if not all(isinstance(r, Reaction) for r in other_rxns):
            raise ValueError("Need an iterable of Reaction instances")
        return self.__class__(chain(self.rxns, other_rxns), substances, checks=())

    def __eq__(self, other):
        if self is other:
            return True
        return self.rxns == other.rxns and self.substances == other.substances

    def substance_names(self):
        """Returns a tuple of the substances' names"""
        return tuple(substance.name for substance in self.substances.values())

    def substance_participation(self, substance_key):
        r"""Returns indices of reactions where substance_key occurs

        Parameters
        ----------
        substance_key: str

        Examples
        --------
        >>> rs = ReactionSystem.from_string('2 H2 + O2 -> 2 H2O\n 2 H2O2 -> 2 H2O + O2')
        >>> rs.substance_participation('H2')
        [0]
        >>> rs.substance_participation('O2')
        [0, 1]
        >>> rs.substance_participation('O3')
        []

        Returns
        -------
        List of indices for self.rxns where `substance_key` participates

        """
        return [ri for ri, rxn in enumerate(self.rxns) if substance_key in rxn.keys()]

    @property
    def nr(self):
        """Number of reactions"""
        return len(self.rxns)

    @property
    def ns(self):
        """Number of substances"""
        return len(self.substances)

    def params(self):
        """Returns list of per reaction ``param`` value"""
        return [rxn.param for rxn in self.rxns]

    def as_per_substance_array(
        self, cont, dtype="float64", unit=None, raise_on_unk=False
    ):
        """Turns a dict into an ordered array

        Parameters
        ----------
        cont : array_like or dict
        dtype : str or numpy.dtype object
        unit : unit, optional
        raise_on_unk : bool

        """
        import numpy as np

        if isinstance(cont, np.ndarray):
            pass
        elif isinstance(cont, dict):
            substance_keys = self.substances.keys()
            if raise_on_unk:
                for k in cont:
                    if k not in substance_keys:
                        raise KeyError("Unknown substance key: %s" % k)
            cont = [cont[k] for k in substance_keys]
        if unit is not None:
            cont = to_unitless(cont, unit)

        cont = np.atleast_1d(np.asarray(cont, dtype=dtype).squeeze())
        if cont.shape[-1] != self.ns:
            raise ValueError("Incorrect size")
        return cont * (unit if unit is not None else 1)

    def as_per_substance_dict(self, arr):
        return dict(zip(self.substances.keys(), arr))

    def as_substance_index(self, substance_key):
        """Returns the index of a Substance in the system"""
        if isinstance(substance_key, int):
            return substance_key
        else:
            return list(self.substances.keys()).index(substance_key)

    def per_substance_varied(self, per_substance, varied=None):
        """Dense nd-array for all combinations of varied levels per substance

        Parameters
        ----------
        per_substance: dict or array
        varied: dict

        Examples
        --------
        >>> rsys = ReactionSystem([], 'A B C')
        >>> arr, keys = rsys.per_substance_varied({'A': 2, 'B': 3, 'C': 5}, {'C': [5, 7, 9, 11]})
        >>> arr.shape, keys
        ((4, 3), ('C',))
        >>> all(arr[1, :] == [2, 3, 7])
        True

        Returns
        -------
        ndarray : with len(varied) + 1 number of axes, and with last axis length == self.ns

        """
        import numpy as np

        varied = varied or {}
        varied_keys = tuple(k for k in self.substances if k in varied)
        n_varied = len(varied)
        shape = tuple(len(varied[k]) for k in self.substances if k in varied)
        result = np.empty(shape + (self.ns,))
        result[..., :] = self.as_per_substance_array(per_substance)
        if varied:
            for k, vals in varied.items():
                varied_axis = varied_keys.index(k)
                for varied_idx, val in enumerate(vals):
                    index = tuple(
                        varied_idx if i == varied_axis else slice(None)
                        for i in range(n_varied)
                    )
                    result[index + (self.as_substance_index(k),)] = val
        return result, varied_keys

    def per_reaction_effect_on_substance(self, substance_key):
        result = {}
        for ri, rxn in enumerate(self.rxns):
            (n,) = rxn.net_stoich((substance_key,))
            if n != 0:
                result[ri] = n
        return result

    def rates(
        self,
        variables=None,
        backend=math,
        substance_keys=None,
        ratexs=None,
        cstr_fr_fc=None,
    ):
        """Per substance sums of reaction rates rates.

        Parameters
        ----------
        variables : dict
        backend : module, optional
        substance_keys : iterable of str, optional
        ratexs : iterable of RateExpr instances
        cstr_fr_fc : tuple (str, tuple of str)
            Continuously stirred tank reactor conditions. Pair of
            flow/volume ratio key (feed-rate/tank-volume) and dict mapping
            feed concentration keys to substance keys.

        Returns
        -------
        dict
            per substance_key time derivatives of concentrations.

        Examples
        --------
        >>> r = Reaction({'R': 2}, {'P': 1}, 42.0)
        >>> rsys = ReactionSystem([r])
        >>> rates = rsys.rates({'R': 3, 'P': 5})
        >>> abs(rates['P'] - 42*3**2) < 1e-14
        True

        """
        result = {}
        if ratexs is None:
            ratexs = [None] * self.nr
        for rxn, ratex in zip(self.rxns, ratexs):
            for k, v in rxn.rate(
                variables, backend, substance_keys, ratex=ratex
            ).items():
                if k not in result:
                    result[k] = v
                else:
                    result[k] += v
        if cstr_fr_fc:
            fr_key, fc = cstr_fr_fc
            for sk, fck in fc.items():
                result[sk] += variables[fr_key] * (variables[fck] - variables[sk])
        return result

    def _stoichs(self, attr, keys=None):
        import numpy as np

        if keys is None:
            keys = self.substances.keys()
        # dtype: see https://github.com/sympy/sympy/issues/10295
        return np.array([(getattr(eq, attr)(keys)) for eq in self.rxns], dtype=object)

    def net_stoichs(self, keys=None):
        return self._stoichs("net_stoich", keys)

    def all_reac_stoichs(self, keys=None):
        return self._stoichs("all_reac_stoich", keys)

    def active_reac_stoichs(self, keys=None):
        return self._stoichs("active_reac_stoich", keys)

    def all_prod_stoichs(self, keys=None):
        return self._stoichs("all_prod_stoich", keys)

    def active_prod_stoichs(self, keys=None):
        return self._stoichs("active_prod_stoich", keys)

    def stoichs(self, non_precip_rids=()):  # TODO: rename to cond_stoichs
        """Conditional stoichiometries depending on precipitation status"""
        # dtype: see https://github.com/sympy/sympy/issues/10295
        import numpy as np

        return np.array(
            [
                (
                    -np.array(eq.precipitate_stoich(self.substances)[0])
                    if idx in non_precip_rids
                    else eq.non_precipitate_stoich(self.substances)
                )
                for idx, eq in enumerate(self.rxns)
            ],
            dtype=object,
        )

    def composition_balance_vectors(self):
        r"""Returns a list of lists with compositions and a list of composition keys.

        The list of lists can be viewed as a matrix with rows corresponding to composition keys
        (which are given as the second item in the returned tuple) and columns corresponding to
        substances. Multiplying the matrix with a vector of concentrations give an equation which
        is an invariant (corresponds to mass & charge conservation).

        Examples
        --------
        >>> s = 'Cu+2 + NH3 -> CuNH3+2'
        >>> import re
        >>> substances = re.split(r' \+ | -> ', s)
        >>> rsys = ReactionSystem.from_string(s, substances)
        >>> rsys.composition_balance_vectors()
        ([[2, 0, 2], [0, 3, 3], [0, 1, 1], [1, 0, 1]], [0, 1, 7, 29])

        Returns
        -------
        A: list of lists
        ck: (sorted) tuple of composition keys

        """
        subs = self.substances.values()
        ck = Substance.composition_keys(subs)
        return [[s.composition.get(k, 0) for s in subs] for k in ck], ck

    def upper_conc_bounds(self, init_concs, min_=min, dtype=None, skip_keys=(0,)):
        r"""Calculates upper concentration bounds per substance based on substance composition.

        Parameters
        ----------
        init_concs : dict or array_like
            Per substance initial conidtions.
        min_ : callbable
        dtype : dtype or None
        skip_keys : tuple
            What composition keys to skip.

        Returns
        -------
        numpy.ndarray :
            Per substance upper limit (ordered as :attr:`substances`).

        Notes
        -----
        The function does not take into account whether there actually exists a
        reaction path leading to a substance. Note also that the upper limit is
        per substance, i.e. the sum of all upper bounds amount to more substance than
        available in ``init_conc``.

        Examples
        --------
        >>> rs = ReactionSystem.from_string('2 HNO2 -> H2O + NO + NO2 \n 2 NO2 -> N2O4')
        >>> from collections import defaultdict
        >>> c0 = defaultdict(float, HNO2=20)
        >>> ref = {'HNO2': 20, 'H2O': 10, 'NO': 20, 'NO2': 20, 'N2O4': 10}
        >>> rs.as_per_substance_dict(rs.upper_conc_bounds(c0)) == ref
        True

        """
        import numpy as np

        if dtype is None:
            dtype = np.float64
        init_concs_arr = self.as_per_substance_array(init_concs, dtype=dtype)
        composition_conc = defaultdict(float)
        for conc, s_obj in zip(init_concs_arr, self.substances.values()):
            for comp_nr, coeff in s_obj.composition.items():
                if comp_nr in skip_keys:  # charge may be created (if compensated)
                    continue
                composition_conc[comp_nr] += coeff * conc
        bounds = []
        for s_obj in self.substances.values():
            choose_from = []
            for comp_nr, coeff in s_obj.composition.items():
                if comp_nr == 0:
                    continue
                choose_from.append(composition_conc[comp_nr] / coeff)
            if len(choose_from) == 0:
                bounds.append(float("inf"))
            else:
                bounds.append(min_(choose_from))
        return bounds

    def _unimolecular_reactions(self):
        A = [None] * self.ns
        unconsidered_ri = set()
        for i, r in enumerate(self.rxns):
            if r.order() == 1:
                keys = [k for k, v in r.reac.items() if v != 0]
                if len(keys) == 1:
                    ri = self.as_substance_index(keys[0])
                else:
                    raise NotImplementedError("Need 1 or 2 keys")
                if A[ri] is None:
                    A[ri] = list()
                A[ri].append((i, r))
            else:
                unconsidered_ri.add(i)
        return A, unconsidered_ri

    @deprecated(
        last_supported_version="0.5.7",
        will_be_missing_in="0.8.0",
        use_instead="chempy.printing.tables.UnimolecularTable",
    )
    def unimolecular_html_table(self, *args, **kwargs):
        from .printing.tables import UnimolecularTable

        return UnimolecularTable.from_ReactionSystem(self)

    def _bimolecular_reactions(self):
        A = [[None] * self.ns for _ in range(self.ns)]
        unconsidered_ri = set()
        for i, r in enumerate(self.rxns):
            if r.order() == 2:
                keys = [k for k, v in r.reac.items() if v != 0]
                if len(keys) == 1:
                    ri = ci = self.as_substance_index(keys[0])
                elif len(keys) == 2:
                    ri, ci = sorted(map(self.as_substance_index, keys))
                else:
                    raise NotImplementedError("Need 1 or 2 keys")
                if A[ri][ci] is None:
                    A[ri][ci] = list()
                A[ri][ci].append((i, r))
            else:
                unconsidered_ri.add(i)
        return A, unconsidered_ri

    @deprecated(
        last_supported_version="0.5.7",
        will_be_missing_in="0.8.0",
        use_instead="chempy.printing.tables.BimolecularTable",
    )
    def bimolecular_html_table(self, *args, **kwargs):
        from .printing.tables import BimolecularTable

        return BimolecularTable.from_ReactionSystem(self)

    def identify_equilibria(self):
        """Returns a list of index pairs of reactions forming equilibria.

        The pairs are sorted with respect to index (lowest first)
        """
        eq = []
        for ri1, rxn1 in enumerate(self.rxns):
            for ri2, rxn2 in enumerate(self.rxns[ri1 + 1 :], ri1 + 1):

                all_eq = rxn1.all_reac_stoich(self.substances) == rxn2.all_prod_stoich(
                    self.substances
                ) and rxn1.all_prod_stoich(self.substances) == rxn2.all_reac_stoich(
                    self.substances
                )
                if all_eq:
                    eq.append((ri1, ri2))
                    break
        return eq
